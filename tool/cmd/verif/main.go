// Command verif is the driver of the verification checks (see /verif/DESIGN.md section 9).
package main

import (
	"encoding/json"
	"fmt"
	"os"
	"path/filepath"
	"strconv"
	"time"

	"verif/tool/internal/driver"
	"verif/tool/internal/instrument"
)

func usage() {
	fmt.Fprintln(os.Stderr, "usage: verif check <id> [--tier quick|thorough] | verif replay <file> | verif instrument <dir> | verif warm | verif selftest determinism [ids] | verif survey <id>")
	os.Exit(2)
}

func newEnv() *driver.Env {
	root, _ := os.Getwd()
	if r := os.Getenv("VERIF_ROOT"); r != "" {
		root = r
	}
	if _, err := os.Stat(filepath.Join(root, "harness", "go.mod")); err != nil {
		// not started from the root: the binary lives in <root>/bin
		if exe, e2 := os.Executable(); e2 == nil {
			if r := filepath.Dir(filepath.Dir(exe)); r != root {
				if _, e3 := os.Stat(filepath.Join(r, "harness", "go.mod")); e3 == nil {
					root = r
				}
			}
		}
	}
	if _, err := os.Stat(filepath.Join(root, "harness", "go.mod")); err != nil {
		fmt.Fprintf(os.Stderr, "verif: %s does not look like the /verif root (run from /verif or set VERIF_ROOT)\n", root)
		os.Exit(2)
	}
	e := &driver.Env{Root: root, Repo: "/repo", Seed: 1, Tier: "quick", Jobs: 16, Log: os.Stderr, Start: time.Now()}
	if v := os.Getenv("VERIF_REPO"); v != "" {
		e.Repo = v
	}
	if v := os.Getenv("VERIF_SEED"); v != "" {
		if n, err := strconv.ParseUint(v, 10, 64); err == nil {
			e.Seed = n
		}
	}
	if v := os.Getenv("VERIF_TIER"); v == "quick" || v == "thorough" {
		e.Tier = v
	}
	if v := os.Getenv("VERIF_JOBS"); v != "" {
		if n, err := strconv.Atoi(v); err == nil && n > 0 {
			e.Jobs = n
		}
	}
	tmp := os.Getenv("VERIF_TMP")
	if tmp == "" {
		tmp = os.TempDir()
	}
	s, err := os.MkdirTemp(tmp, "verif-scratch-")
	if err != nil {
		fmt.Fprintln(os.Stderr, "verif:", err)
		os.Exit(2)
	}
	e.Scratch = s
	return e
}

func main() {
	if len(os.Args) < 2 {
		usage()
	}
	switch os.Args[1] {
	case "instrument":
		if len(os.Args) < 3 {
			usage()
		}
		rep, err := instrument.Run(instrument.Options{Dir: os.Args[2], ExcludeSuffix: []string{"/soyweb", "/xgettext-soy"}, StatementYield: true})
		if err != nil {
			fmt.Fprintln(os.Stderr, "instrument:", err)
			os.Exit(2)
		}
		fmt.Printf("files=%d sites=%d counts=%v\nskipped=%v\nunmodelled=%v\n", rep.Files, len(rep.Sites), rep.Counts, rep.Skipped, rep.Unmodelled)
		instrument.WriteSites(rep, os.Args[2]+"/sites.json")
	case "check":
		if len(os.Args) < 3 {
			usage()
		}
		e := newEnv()
		id := os.Args[2]
		for i := 3; i < len(os.Args); i++ {
			if os.Args[i] == "--tier" && i+1 < len(os.Args) {
				e.Tier = os.Args[i+1]
				i++
			}
		}
		spec := driver.Specs()[id]
		if spec == nil {
			fmt.Fprintln(os.Stderr, "verif: no check for property", id)
			cleanup(e)
			os.Exit(2)
		}
		code := driver.Check(e, spec)
		cleanup(e)
		os.Exit(code)
	case "survey":
		if len(os.Args) < 3 {
			usage()
		}
		e := newEnv()
		for i := 3; i < len(os.Args); i++ {
			if os.Args[i] == "--tier" && i+1 < len(os.Args) {
				e.Tier = os.Args[i+1]
				i++
			}
		}
		spec := driver.Specs()[os.Args[2]]
		if spec == nil {
			usage()
		}
		code := driver.Survey(e, spec)
		cleanup(e)
		os.Exit(code)
	case "replay":
		if len(os.Args) < 3 {
			usage()
		}
		e := newEnv()
		code := replay(e, os.Args[2])
		cleanup(e)
		os.Exit(code)
	case "selftest":
		if len(os.Args) >= 3 && os.Args[2] == "racesense" {
			e := newEnv()
			code := driver.SelfTestRaceSense(e)
			cleanup(e)
			os.Exit(code)
		}
		if len(os.Args) < 3 || os.Args[2] != "determinism" {
			usage()
		}
		e := newEnv()
		ids := os.Args[3:]
		if len(ids) == 0 {
			ids = []string{"C05", "C06", "C08", "C09", "C18"}
		}
		code := driver.SelfTestDeterminism(e, ids, 12)
		cleanup(e)
		os.Exit(code)
	case "warm":
		e := newEnv()
		err := e.Prepare("plain", "inst", "race")
		cleanup(e)
		if err != nil {
			fmt.Fprintln(os.Stderr, "verif warm:", err)
			os.Exit(2)
		}
	default:
		usage()
	}
}

func replay(e *driver.Env, file string) int {
	b, err := os.ReadFile(file)
	if err != nil {
		fmt.Fprintln(os.Stderr, "verif replay:", err)
		return 2
	}
	var doc driver.ReplayDoc
	if err := json.Unmarshal(b, &doc); err != nil {
		fmt.Fprintln(os.Stderr, "verif replay:", err)
		return 2
	}
	spec := driver.Specs()[doc.Property]
	if spec == nil {
		fmt.Fprintln(os.Stderr, "verif replay: unknown property", doc.Property)
		return 2
	}
	return driver.Replay(e, spec, &doc, file)
}

func cleanup(e *driver.Env) {
	if os.Getenv("VERIF_KEEP") != "" {
		fmt.Fprintln(os.Stderr, "scratch kept at", e.Scratch)
		return
	}
	os.RemoveAll(e.Scratch)
}
