package faults

import (
	"bytes"
	"fmt"
	"io"
	"strings"

	"github.com/robfig/soy/ast"
	"github.com/robfig/soy/soymsg"
	"github.com/robfig/soy/soymsg/pomsg"
)

type memOpener struct{ files map[string]string }

type nopCloser struct{ io.Reader }

func (nopCloser) Close() error { return nil }

func (m memOpener) Open(locale string) (io.ReadCloser, error) {
	s, ok := m.files[locale]
	if !ok {
		return nil, nil
	}
	return nopCloser{strings.NewReader(s)}, nil
}

func poQuote(s string) string {
	r := strings.NewReplacer("\\", "\\\\", "\"", "\\\"", "\n", "\\n", "\t", "\\t", "\r", "\\r")
	return "\"" + r.Replace(s) + "\""
}

// POText writes a PO catalogue for the messages that are representable in a PO file (a
// "translation" that prefixes every message with [po] and keeps its placeholders).
func POText(msgs []*ast.MsgNode) string {
	var sb bytes.Buffer
	sb.WriteString("msgid \"\"\nmsgstr \"\"\n\"Language: en\\n\"\n\n")
	seen := map[uint64]bool{}
	for _, m := range msgs {
		if seen[m.ID] || m.ID == 0 || pomsg.Validate(m) != nil {
			continue
		}
		id := pomsg.Msgid(m)
		if id == "" {
			continue
		}
		seen[m.ID] = true
		var plural *ast.MsgPluralNode
		if ch := m.Body.Children(); len(ch) > 0 {
			plural, _ = ch[0].(*ast.MsgPluralNode)
		}
		if plural != nil {
			fmt.Fprintf(&sb, "#: id=%d var=%s\n", m.ID, plural.VarName)
		} else {
			fmt.Fprintf(&sb, "#: id=%d\n", m.ID)
		}
		if m.Meaning != "" {
			fmt.Fprintf(&sb, "msgctxt %s\n", poQuote(m.Meaning+fmt.Sprint(m.ID)))
		} else {
			fmt.Fprintf(&sb, "msgctxt %s\n", poQuote(fmt.Sprint(m.ID)))
		}
		fmt.Fprintf(&sb, "msgid %s\n", poQuote(id))
		if plural != nil {
			pl := pomsg.MsgidPlural(m)
			fmt.Fprintf(&sb, "msgid_plural %s\n", poQuote(pl))
			fmt.Fprintf(&sb, "msgstr[0] %s\nmsgstr[1] %s\n\n", poQuote("[po]"+id), poQuote("[po]"+pl))
		} else {
			fmt.Fprintf(&sb, "msgstr %s\n\n", poQuote("[po]"+id))
		}
	}
	return sb.String()
}

// POBundle loads the real soymsg/pomsg bundle for the given messages through an in-memory
// FileOpener; ok is false if no message is representable or the catalogue does not load.
func POBundle(msgs []*ast.MsgNode) (b soymsg.Bundle, ok bool) {
	defer func() {
		if recover() != nil {
			b, ok = nil, false
		}
	}()
	text := POText(msgs)
	if !strings.Contains(text, "#: id=") {
		return nil, false
	}
	prov, err := pomsg.Load(memOpener{map[string]string{"en": text}}, []string{"en"})
	if err != nil || prov == nil {
		return nil, false
	}
	b = prov.Bundle("en")
	return b, b != nil
}

// POProvider loads the repository's PO provider with catalogues for "en" and "fr" made from the
// messages (nil if none is representable): lookups of en_US, en_GB, fr_CA, de ... then take the
// provider's fallback paths.
func POProvider(msgs []*ast.MsgNode) (p soymsg.Provider) {
	defer func() {
		if recover() != nil {
			p = nil
		}
	}()
	text := POText(msgs)
	if !strings.Contains(text, "#: id=") {
		return nil
	}
	prov, err := pomsg.Load(memOpener{map[string]string{"en": text, "fr": strings.ReplaceAll(text, "Language: en", "Language: fr")}}, []string{"en", "fr"})
	if err != nil {
		return nil
	}
	return prov
}

// KindPO selects the real pomsg bundle in Catalogue.
const KindPO = int(NumBundleKinds)

// Catalogue returns the message bundle of the given kind for the messages: one of the stub
// kinds, or (KindPO) the repository's own PO-file bundle loaded from a generated catalogue.
// kind < 0 means no bundle.
func Catalogue(kind int, msgs []*ast.MsgNode) soymsg.Bundle {
	switch {
	case kind < 0:
		return nil
	case kind == KindPO:
		if b, ok := POBundle(msgs); ok {
			return b
		}
		return NewBundle(BundleIdentity, msgs)
	case kind < int(NumBundleKinds):
		return NewBundle(BundleKind(kind), msgs)
	}
	return nil
}
