package driver

import (
	"os"
	"path/filepath"
	"sort"
	"time"
)

var realSoy = []string{"all library packages of robfig/soy (ast data errortypes parse parsepasses soyhtml soyjs soymsg soymsg/pomsg template and the root package), instrumented copy of the current working tree"}

// Specs returns the check specifications by property id.
func Specs() map[string]*Spec {
	m := map[string]*Spec{}
	m["C05"] = &Spec{
		ID: "C05", Level: "exploration", Main: "inst", Variants: []string{"inst"}, Block: 4,
		QuickWall: 30 * time.Minute, ThoroughWall: 20 * time.Minute, BlockWall: 15 * time.Minute,
		Nontrivial: "input",
		RequireProbes: []string{"exhaustive_prefix_units", "returned_tree", "returned_error", "entry_file", "entry_expr", "linearity_pairs", "kind_prefix", "kind_skeleton", "kind_pump", "kind_random-bytes", "kind_tags-file", "kind_tags-template", "kind_tags-nested",
			"kind_expr-seq", "kind_truncate-tag", "kind_splice", "sched_lockstep", "sched_random-q1", "sched_random-q7", "sched_rr-q1", "chan_ops", "switches"},
		Rule: "every byte-prefix of every corpus item (testdata/*.soy and every string literal of the repository's *_test.go files; raw, wrapped in a template, and as a standalone expression) " +
			"is enumerated exhaustively; then seeded units of 100 inputs each (token deletions/duplications/swaps/splices of corpus items, sequences of up to N tags from the tag dictionary at file/template/nested level, " +
			"structurally plausible skeleton files whose namespaces, aliases and callee names come from a pool of eight overlapping dotted names, expression atom sequences, inputs pumped to 16-64KB, random bytes). Each input is parsed as the main task of a two-task simulation (scanner goroutine + parser) under one of four seeded schedules; " +
			"oracle: the call returns (no panic in either task), no deadlock, at most StepsPerByte*(len+64) simulated steps. An input counts as distinct and non-trivial by the hash of (entry point, input bytes); every input exchanges at least one token with the scanner task.",
		Assumptions: []string{
			"simulated time counts soy function entries, loop iterations and statements; time spent inside the standard library counts as one step per call",
			"scanner and parser exchange data only through the token channel (no shared variables), so schedules other than the sampled ones give the same tokens; a data race between them would be C09's to find",
			"the time bound constant is a harness constant fixed at >20x the worst measured ratio",
		},
		Components: map[string][]string{"real": realSoy, "stub": {}, "replaced": {"Go scheduler's choice between scanner and parser goroutine", "blocking on the token channel (modelled for enabledness; the real channel still carries the data)"}},
	}
	m["C18"] = &Spec{
		ID: "C18", Level: "exploration", Main: "inst", Variants: []string{"inst", "plain"}, Block: 4,
		RequireProbes: []string{"exhaustive_prefix_units", "sequences", "tasks_spawned", "outcome_ok", "outcome_error", "entry_file", "entry_expr", "entry_globals", "entry_compile", "kind_compile-unnamed", "kind_quoted-attr-error",
			"kind_quoted-attr-trailing", "kind_globals-error", "kind_trailing", "kind_trailing-lexerror", "kind_plural-error", "kind_runtime-error-path", "kind_early-error-large", "native_sequences"},
		Post: func(e *Env, s *Spec, agg *Agg, cov map[string]interface{}) error {
			// cross-check with the real runtime: the un-instrumented build parses the same sequences and
			// the goroutine dump is searched for scanner frames once it has settled
			if agg.Counters["sequences_cut_by_c05_condition"] > 0 {
				cov["native_cross_check"] = "skipped: some sequences met a C05 condition (a parse that hangs or crashes the scanner), which the real runtime cannot survive"
				return nil
			}
			n := 80
			if e.Tier == "thorough" {
				n = 1500
			}
			var units []int
			// the tail of the plan holds the seeded sequences, the head the exhaustive prefixes
			for i := 0; i < n && i < agg.Units; i++ {
				if i%2 == 0 {
					units = append(units, agg.Units-1-i/2)
				} else {
					units = append(units, i/2)
				}
			}
			sort.Ints(units)
			a, err := e.Fan(FanOpts{Variant: "plain", Prop: s.ID, Units: units, Block: 1, BlockWall: s.BlockWall, Extra: append(s.extra(e), "-extra", "native")})
			if err != nil {
				return err
			}
			agg.Evals += a.Evals
			agg.Fails = append(agg.Fails, a.Fails...)
			agg.Counters["native_sequences"] += a.Counters["native_sequences"]
			cov["native_cross_check"] = map[string]interface{}{"sequences": a.Counters["native_sequences"], "parse_calls": a.Evals, "leaks_seen_by_the_real_runtime": len(a.Fails)}
			return nil
		},
		QuickWall: 30 * time.Minute, ThoroughWall: 20 * time.Minute, BlockWall: 15 * time.Minute,
		Nontrivial: "history",
		Rule: "sequences of up to 200 parse calls (parse.SoyFile, parse.Expr, soy.ParseGlobals, Bundle.Compile) run inside one simulated process; after every call returns the scheduler runs all remaining tasks to quiescence and any task " +
			"that is alive and disabled for ever (blocked in a send nobody will receive) is a leak; the tasks a call started may run at most 500 more simulated steps after it returned (6 on the pinned tree), more is reported as lingering; tasks still asleep or polling one simulated hour later count as left behind. Exhaustive part: every byte-prefix of every corpus item, in sequences of 200; seeded part: sequences mixing corpus prefixes, mutants, " +
			"inputs with trailing tokens after a complete expression, errors and trailing tokens inside quoted attribute expressions, runtime-error paths of the parser, globals files, multi-file compiles, large files with an error near their start, files with a prelude (byte-order mark, shebang, ...). " +
			"A history is distinct by the hash of its call list; every history spawns at least one scanner task.",
		Assumptions: []string{
			"a leak is a task disabled for ever in the simulator's models of channels, select, mutexes, WaitGroup, Cond, timers and tickers; context deadlines and signal.Notify are not modelled (a tree that uses them makes the check exit 2)",
			"sequences cut short by a C05 condition (budget, deadlock) are counted and left to C05",
		},
		Components: map[string][]string{"real": realSoy, "stub": {}, "replaced": {"Go scheduler's goroutine choice", "channel blocking (enabledness model)"}},
	}
	for _, f := range extraSpecs {
		f(m)
	}
	return m
}

var extraSpecs []func(map[string]*Spec)

func init() {
	extraSpecs = append(extraSpecs, func(m map[string]*Spec) {
		m["C12"] = &Spec{
			ID: "C12", Level: "fault_enumeration", Main: "plain", Variants: []string{"plain"}, Block: 2,
			QuickWall: 30 * time.Minute, ThoroughWall: 20 * time.Minute, BlockWall: 15 * time.Minute,
			Nontrivial: "case",
			Rule: "seeded generated bundles (1-4 files x 1-5 templates, all commands, directive chains, calls with data=all/data=$m/content params, msg with placeholders, html tags and plurals, globals, $ij, autoescape modes), " +
				"each rendered per entry template and data set through a recording writer (without a message bundle, with a stub bundle, or with the repository's own PO-file bundle loaded from a generated catalogue). Swarm per case: the entry point (Renderer.Execute with $ij and catalogue, or Tofu.Render) and the optional interfaces the writer offers besides Write " +
				"(none; Flush() error returning nil; Flush() error reporting the earlier failure; io.StringWriter). Then, exhaustively per case, one run for every write call index k of the fault-free run in four modes (sticky: calls >= k fail; transient: only call k fails; " +
				"partial: call k accepts half its bytes and fails; fullcount: call k accepts all its bytes and still returns an error) and one run for every byte capacity b in 0..|output| (all b when |output| <= 1024, else all call boundaries +-1 and a seeded sample). " +
				"Oracle: a failed write implies a non-nil error; bytes accepted up to the first failure are a prefix of the fault-free output; nil implies the whole output was accepted. " +
				"A case is distinct by (bundle skeleton, entry template, data set, catalogue) and non-trivial if its fault-free run offers at least two fault points (two write calls, or two bytes of output for the capacity enumeration).",
			Assumptions: []string{
				"the fault-free run of the same compiled bundle is the reference output (rendering is deterministic for the generated subset: no randomInt, no keys())",
				"runs the plain, un-instrumented build: the writer seam is part of soy's API and needs no scheduler",
			},
			Components: map[string][]string{"real": {"all of robfig/soy, unmodified build of the current working tree"}, "stub": {"io.Writer (fault-injecting, recording; optionally with Flush or WriteString)", "soymsg.Bundle (identity / reversed / partial catalogue built from the compiled messages; or the real pomsg bundle over generated PO text)"}, "replaced": {}},
			RequireProbes: []string{"fault_landed_on_entity", "fault_landed_on_escaper-chunk", "fault_landed_on_rawtext", "fault_landed_on_value", "fault_fired_sticky", "fault_fired_transient", "fault_fired_partial", "fault_fired_fullcount", "fault_fired_capacity", "fault_fired_with_pomsg_bundle",
				"fault_fired_with_catalogue", "api_execute", "api_render", "writer_shape_plain", "writer_shape_flush-nil", "writer_shape_flush-err", "writer_shape_stringwriter", "writer_shape_bufferlike", "cases_with_a_system_error_value", "bundle_has_css", "bundle_has_msg", "bundle_has_literal", "bundle_has_sp", "bundle_has_letc", "bundle_has_log", "bundle_has_param-content", "bundle_has_call"},
			ProbesNotApplicable: func(agg *Agg) []string {
				// a renderer that buffers its output makes one write call per render (or one per few KB; the
				// pinned tree makes about 115 per case): which kind of text a
				// failing call carries is then not observable (the byte-capacity enumeration still reaches
				// every offset of the output)
				if agg.Counters["max_write_calls_in_a_case"] <= 2 || agg.Counters["fault_free_write_calls"] < 20*agg.Counters["cases"] {
					return []string{"fault_landed_on_entity", "fault_landed_on_escaper-chunk", "fault_landed_on_rawtext", "fault_landed_on_value", "fault_fired_transient", "fault_fired_partial", "fault_fired_fullcount"}
				}
				return nil
			},
		}
	})
}

func init() {
	extraSpecs = append(extraSpecs, func(m map[string]*Spec) {
		m["C08"] = &Spec{
			ID: "C08", Level: "exploration", Main: "plain", Also: []string{"inst"}, Variants: []string{"plain", "inst"}, Block: 2,
			QuickWall: 30 * time.Minute, ThoroughWall: 20 * time.Minute, BlockWall: 15 * time.Minute,
			Nontrivial: "history",
			Rule: "seeded histories of 2..8 (quick) / 2..40 (thorough) operations over ONE compiled generated bundle, one set of data maps, $ij maps and message catalogues, all reused for the whole history. Operations: render; render through a reused Renderer value; " +
				"render into a writer failing at write k; render in which the vfail function/directive panics at its n-th invocation (error, string, runtime.Error or struct value); render with ill-typed data; Tofu.Render of the data map, of hand-built data with Go nils inside, and of a Go struct by pointer which the caller edits in place between two renders; soyjs.Write (ES5/ES6, with/without catalogue); Generator.WriteFile; " +
				"parse.Expr+EvalExpr; re-compiling the same soy.Bundle. Installed registries: vfail (function and directive), vq, vbang, and vpush, a custom function that appends to its list argument the ordinary Go way. Swarm configuration per history: 0, 1 or 2 obligatory print directives, catalogue kind. Reference model: the same render as the first operation on a freshly compiled bundle with pristine data (memoised). " +
				"Invariants after every operation: un-faulted renders are byte-identical to the model and agree on error presence; faulted renders wrote a prefix of the model output; a failed write is reported by the render; no panic escapes and no operation hangs unless the model does too; the structural digest (reflection over exported and unexported fields, pointer-identity aware) of data maps, $ij, catalogues, " +
				"the whole template.Registry with every AST node, the soy.Bundle and the process-wide registries is unchanged. The same histories run on the plain build and on the instrumented build (under the step clock). Process clause: selected histories are executed again as the first thing a fresh child process does, and every un-faulted render must agree with it (state kept in package-level variables outlives every bundle of a worker process, the fresh-compile model included). A history is distinct by the hash of (bundle skeleton, operation list).",
			Assumptions: []string{
				"error text is not compared (it embeds stack traces); only presence",
				"JS generation is an operation in the history, its own bytes are C13's subject",
				"randomInt and keys() are excluded from generated bundles",
			},
			Components: map[string][]string{"real": {"all of robfig/soy: unmodified build and instrumented build of the current working tree"}, "stub": {"io.Writer (fault-injecting)", "soymsg.Bundle (built from the compiled messages)", "vfail function / directive (panics on schedule)"}, "replaced": {}},
			RequireProbes: []string{"renders_compared_with_output", "completed_js", "completed_genfile", "completed_recompile", "completed_evalexpr", "histories_compared_with_a_fresh_process", "op_render-tofu", "op_render-struct", "op_edit-struct", "op_swap-func", "op_render-nils", "op_render-tofu-nils", "op_render", "op_render-reused", "op_render-writerfault", "op_render-panic", "op_render-illtyped", "op_js", "op_genfile", "op_recompile", "fault_fired_writer", "fault_fired_panic_error", "fault_fired_panic_runtime-error",
				"histories_with_obligatory_directives", "failed_renders"},
		}
	})
}

func init() {
	extraSpecs = append(extraSpecs, func(m map[string]*Spec) {
		m["C06"] = &Spec{
			ID: "C06", Level: "fault_enumeration", Main: "inst", Variants: []string{"inst"}, Block: 2,
			QuickWall: 30 * time.Minute, ThoroughWall: 20 * time.Minute, BlockWall: 15 * time.Minute,
			Nontrivial: "case",
			Rule: "seeded generated bundles in valid mode and in chaos mode (1-4 typing-discipline-breaking mutations: ill-typed / out-of-range / wrong-arity expressions and directives, non-positive range steps, a template name defined again in a second shorter file, " +
				"failing prints inside callees, plural on non-integers, data of arbitrary JSON shape with missing params). For every entry: a fault-free reference run under the simulator's step clock records every invocation of the vfail function/directive, every write and every catalogue lookup; " +
				"then one run per fault point: a panic of each of four kinds (error, string, runtime.Error, struct) at the n-th invocation, a writer error (sticky and transient) at the k-th write, each misbehaving catalogue (unknown placeholder, plural part for a plain message, " +
				"plural case out of range / negative) from the start and from the m-th lookup on; through Tofu.Render, Renderer.Execute with and without Inject / WithMessages. Plus soyhtml.EvalExpr(parse.Expr(e)) for the case's expressions and chaos expressions, " +
				"and soy.ParseGlobals of a generated globals file (lines drawn from a grammar of ordinary and odd names - empty, dotted, doubled-dot, non-ASCII components -, separators and values, plus byte-level edits) through a reader with short reads, an error (with and without data) and an early EOF at every byte offset. Oracle: the call returns - no panic escapes, the step budget is not exhausted, no deadlock. " +
				"A case is distinct by (bundle skeleton, chaos mutations); fault points are enumerated exhaustively per case (write indices sampled beyond 120 calls).",
			Assumptions: []string{
				"the oracle does not require an injected fault to yield an error, only that nothing escapes, hangs or blocks",
				"the all-compilable-bundles and all-data-shapes part of the quantifier is sampled by the generator; the fault dimension is enumerated",
				"step budget is a harness constant far above the measured need of legitimate generated workloads (max_steps_fault_free)",
			},
			Components: map[string][]string{"real": realSoy, "stub": {"io.Writer", "io.Reader", "soymsg.Bundle", "vfail function and directive"}, "replaced": {"wall-clock time (step clock)"}},
			RequireProbes: []string{"fault_fired_panic-error", "fault_fired_panic-string", "fault_fired_panic-runtime-error", "fault_fired_panic-struct", "fault_fired_write", "fault_fired_read",
				"fault_fired_bundle-unknown-placeholder", "fault_fired_bundle-plural-for-plain", "fault_fired_bundle-plural-case-high", "fault_fired_bundle-plural-case-negative",
				"chaos_duplicate-template", "chaos_for-step", "chaos_expr:print", "chaos_directive", "chaos_data", "api_render", "api_execute", "api_execute-noij", "evalexpr", "globals_parses"},
			Post: func(e *Env, s *Spec, agg *Agg, cov map[string]interface{}) error {
				v, d := agg.Counters["valid_cases"], agg.Counters["valid_discards"]
				if v > 50 && d*50 > v {
					return troublef("generator discards in valid mode above 2%% (%d of %d): generator defect", d, v)
				}
				return nil
			},
		}
	})
}

func init() {
	extraSpecs = append(extraSpecs, func(m map[string]*Spec) {
		m["C09"] = &Spec{
			ID: "C09", Level: "exploration", Main: "race", Variants: []string{"race"}, Block: 1,
			QuickWall: 30 * time.Minute, ThoroughWall: 20 * time.Minute, BlockWall: 15 * time.Minute,
			Nontrivial: "interleaving", Recheck: 12,
			Rule: "each run compiles a seeded generated bundle (set-up in the harness task, as a server does at start-up), then 2-6 client tasks each perform 1-4 operations on the SHARED Tofu, registry, data maps, $ij maps and message bundle (a stateless stub or the repository's own pomsg bundle loaded from generated PO text): render (same or different templates, with/without catalogue), " +
				"Execute on one *Renderer object shared by the tasks, Tofu.Render with shared Go struct values (conversion through data.New), soyjs.Write (ES5/ES6), compilation of an independent bundle and parse.SoyFile (two fifths of them on a damaged file, so that scanner and parser take their error paths; " +
				"every bundle is first handed the same application-wide globals map), renders of ill-typed variants of the data sets (they fail at run time, so the error paths run concurrently). An observer task reads every shared input while the clients run. The references (\"alone\") are computed after the concurrent part and every unit is a fresh process, so whatever soy fills lazily on first use is filled by concurrent tasks. A swarm theme per run may concentrate the operations on one kind. One task runs at a time; the next task is drawn from the run's seeded strategy (uniform random with quantum 1/3/10/50/500 yields, PCT with 1-3 priority change points, coarse run-to-completion in random order, round-robin q=1); a successful Lock/RLock is a scheduling point of its own; the speed of the simulated machine (ns per step, for code that reads the clock or arms timers) is drawn per run; " +
				"task handoffs are hidden from ThreadSanitizer (runtime.RaceDisable around the baton channel operations, //go:norace simulator), so the serial, replayable execution is still judged concurrent. Swarm: 0-2 obligatory directives, soyhtml.Logger set or not, catalogue kind. " +
				"Oracles: (1) any race-detector report; (2) every operation's bytes and error presence equal the same operation run alone on a fresh bundle; (3) no panic, no deadlock (of main or among the clients) and no budget exhaustion. A run is distinct and non-trivial by its interleaving hash (sequence of (task, site) at switch points) combined with the bundle skeleton; every run has at least two client tasks.",
			Assumptions: []string{
				"ThreadSanitizer judges the tasks concurrent because the only happens-before edges it sees are the program's own (goroutine creation by the caller, soy's channels, the harness's WaitGroup at the join)",
				"the harness shares only what a server shares: the compiled bundle, read-only data/$ij maps, Go struct values, one globals map, a message bundle and (in the render-shared operation) a configured Renderer; per-operation writers and results are private",
				"a race report is re-executed in up to three fresh processes (whether the detector still holds the earlier access is not a function of the schedule alone); a run in which no report reproduces exits 2",
				"no fault function with a shared counter is installed (it would add happens-before edges soy does not have)",
			},
			Components: map[string][]string{"real": append(realSoy, "ThreadSanitizer (go build -race)"), "stub": {"soymsg.Bundle (stateless stub in part of the runs; the real pomsg bundle in the others)", "io.Writer (bytes.Buffer per operation)"},
				"replaced": {"Go scheduler's goroutine choice", "blocking on channels, select, mutexes, WaitGroup, Cond (enabledness models; the real primitives still carry data and happens-before edges)", "sync.Pool (LIFO free list)", "clock, timers, tickers (simulated clock)"}},
			WorkerEnv: func(e *Env) []string {
				os.MkdirAll(filepath.Join(e.Scratch, "race"), 0o755)
				return []string{"GORACE=halt_on_error=0 exitcode=0 log_path=" + filepath.Join(e.Scratch, "race", "r")}
			},
			ExtraFn:       func(e *Env) []string { return []string{"-racelog", filepath.Join(e.Scratch, "race", "r")} },
			RequireProbes: []string{"op_render", "op_render-shared", "op_render-struct", "op_js", "op_compile", "op_parse", "completed_render", "completed_render-shared", "completed_render-struct", "completed_js", "completed_compile", "completed_parse", "op_compile_malformed", "op_parse_malformed", "op_render_illtyped", "op_with_catalogue", "runs_with_pomsg_bundle", "runs_with_obligatory_directives", "runs_with_logger", "sched_random", "sched_pct", "sched_coarse", "sched_rr"},
		}
	})
}

// nativeCrossCheck runs the plain, un-instrumented build over the first units in several fresh
// processes under Go's native map iteration order and compares its observation vectors with the
// canonical reference of the instrumented build (DESIGN.md 4, C13 step 4).
func nativeCrossCheck(passes, maxUnits int) func(e *Env, s *Spec, agg *Agg, cov map[string]interface{}) error {
	return func(e *Env, s *Spec, agg *Agg, cov map[string]interface{}) error {
		n := maxUnits
		if agg.Units < n {
			n = agg.Units
		}
		if n == 0 {
			return nil
		}
		nat := newAgg()
		for p := 0; p < passes; p++ {
			a, err := e.Fan(FanOpts{Variant: "plain", Prop: s.ID, Units: Seq(n), Block: 2, BlockWall: s.BlockWall, Extra: append(s.extra(e), "-extra", "native")})
			if err != nil {
				return err
			}
			for k, vs := range a.Obs {
				if nat.Obs[k] == nil {
					nat.Obs[k] = map[string]int{}
				}
				for v, c := range vs {
					nat.Obs[k][v] += c
				}
			}
			agg.Evals += a.Evals
			agg.Fails = append(agg.Fails, a.Fails...)
			agg.Counters["native_units"] += int64(a.Units)
		}
		compared, disagree, opaque := 0, 0, 0
		for k, vs := range nat.Obs {
			ref := agg.Obs[k]
			if ref == nil {
				continue
			}
			compared++
			if len(vs) > 1 {
				disagree++ // native executions disagree with each other: a literally observed violation
				continue
			}
			for v := range vs {
				if ref[v] == 0 {
					opaque++
				}
			}
		}
		cov["native_cross_check"] = map[string]interface{}{"passes": passes, "units": n, "vectors_compared": compared,
			"native_executions_disagreeing_across_processes": disagree, "native_differs_from_instrumented_reference": opaque}
		if disagree > 0 && len(agg.Fails) == 0 {
			// reproduce through the in-process repetition of the native worker, which carries a replay case
			return troublef("native executions of %d case(s) disagree across processes but no in-process repetition and no seam search reproduced it: an un-modelled order source (see DESIGN.md C13 step 4)", disagree)
		}
		if opaque > 0 && disagree == 0 && len(agg.Fails) == 0 {
			return troublef("transparency gate: %d native observation vector(s) differ from the canonical reference of the instrumented build although native executions agree with each other", opaque)
		}
		return nil
	}
}

func init() {
	extraSpecs = append(extraSpecs, func(m map[string]*Spec) {
		m["C13"] = &Spec{
			ID: "C13", Level: "exploration", Main: "inst", Variants: []string{"inst", "plain"}, Block: 2,
			QuickWall: 30 * time.Minute, ThoroughWall: 20 * time.Minute, BlockWall: 15 * time.Minute,
			Nontrivial: "order_assignment",
			Rule: "for each seeded generated bundle (emphasis: ES6 imports of many templates/functions/directives, map literals in printed, error-producing and placeholder positions, colliding placeholder names, a quarter of the cases with a call that omits a required param so that the compile error prints the call, others with several undefined globals, unused or undeclared params; in an eighth of the cases exactly one error - a call to a missing template under a short name that other namespaces use - " +
				"is injected into a bundle the compiler otherwise accepts; short template names recur across namespaces; in half of the cases the globals reach the bundle through AddGlobalsFile) " +
				"the observation vector of one compilation is: accept/reject and error text; whether a second Compile of the same Bundle decides and says the same; id, placeholder names and placeholder string of every msg; rendered output of up to 4 entries; soyjs.Write bytes per file x {ES5, ES6} x {no catalogue, catalogue}. " +
				"Reference: every `range` over a map (and reflect MapKeys) held at its canonical order through the map-order seam. Then: 6 seeded runs with independent order decisions per range execution (perturbation probability 1, 0.3, 0.05), two runs per reached range site perturbing that site alone " +
				"(rotation 1 and n-1), and every permutation of file insertion order (up to 8). Orders for single-bucket maps of <= 8 keys are rotations of the slot order (what the Go runtime produces), seeded permutations otherwise. Oracle: equal vectors (for other file orders: rejected stays rejected and the text may differ, except that a bundle with exactly one injected error must report the same text under every order). " +
				"Finally the plain build observes the same cases in fresh OS processes under native order; its vectors must equal the reference. A run is distinct by its (site, execution, decision) assignment combined with the bundle skeleton, non-trivial if at least one decision is non-canonical.",
			Assumptions: []string{
				"the only sources of nondeterminism between equal sources and equal results are map iteration order and file insertion order (no clock, no randomness: randomInt is excluded); the native cross-check exists to catch an order source the seam does not model",
				"render error text is not compared (it embeds stack traces); compile error text is",
			},
			Components:    map[string][]string{"real": append(realSoy, "unmodified build in fresh processes for the native cross-check"), "stub": {"soymsg.Bundle"}, "replaced": {"Go's random start offset of map iteration (seeded rotation / permutation at every range-over-map site and reflect.Value.MapKeys)"}},
			Post:          nativeCrossCheck(3, 40),
			RequireProbes: []string{"runs_random_plan", "runs_single_site", "runs_file_order", "map_order_decisions_perturbed", "messages_observed", "js_files_observed", "cases_rejected_by_compiler", "native_units"},
		}
	})
}

func init() {
	extraSpecs = append(extraSpecs, func(m map[string]*Spec) {
		m["C10"] = &Spec{
			ID: "C10", Level: "exploration", Main: "inst", Variants: []string{"inst", "plain"}, Block: 3,
			QuickWall: 30 * time.Minute, ThoroughWall: 20 * time.Minute, BlockWall: 15 * time.Minute,
			Nontrivial: "order_assignment",
			Rule: "seeded generated messages built from a vocabulary chosen for the placeholder naming pass: repeated expressions, distinct expressions with one base name ($x, $a.x, $b.x), base names that look like suffixed names ($x_1, $a.x_1, $x_2), expressions without a base name, " +
				"global references, map literals inside placeholders, html tags (two different <a> tags, a tag named a_1), plurals with placeholders in several cases, meanings and descriptions. For every message: (a) the id, placeholder names and placeholder string under every single-site perturbation " +
				"(rotations 1..4) of each reached range-over-map site of the naming pass and under 4 seeded all-site perturbations must equal the canonical observation; (b) compiled after 1..6 other bundles in the same process; (c) the plain build in fresh OS processes under native order; " +
				"(the vocabulary includes placeholders under print directives, commands with attributes inside the body, literal braces, nested plurals; no placeholder may be left without a name) (d) the same message surrounded by other messages, preceded by an impostor whose literal text is its placeholder string, between comments, in another template/namespace/file, with another description, twice in one template, and nested inside each of thirteen constructs (if / else / elseif, switch case / default, foreach body / ifempty, for, let and param content blocks, log, two deep mixes) -> same id and names; (e) changing the text, the meaning, adding a placeholder (also in the innermost of nested plurals), adding a plural case, putting a directive on one of two equal placeholders, or ending in another raw-text fragment of a different text -> a different id. " +
				"A run is distinct by its (site, execution, decision) assignment combined with the message source, non-trivial if at least one decision is non-canonical.",
			Assumptions: []string{
				"decides the stability, independence and sensitivity clauses of C10 only: conformance of the id numbers to Google's fingerprint algorithm and of the names to the official naming rules is a pure function with an external reference and is NOT decided here (the repository's unit tests pin it on fixed vectors)",
				"an id collision between two different placeholder strings (63-bit fingerprint) is treated as impossible in the sensitivity clause",
			},
			Components:    map[string][]string{"real": append(realSoy, "unmodified build in fresh processes for the cross-process clause"), "stub": {}, "replaced": {"Go's map iteration start offset at the range sites of soymsg/placeholder.go and ast/node.go"}},
			Post:          nativeCrossCheck(3, 60),
			RequireProbes: []string{"check_maporder", "check_history", "check_context", "check_context_nested", "check_sensitivity", "map_order_decisions_perturbed", "messages_with_suffixed_placeholder_names", "native_units"},
		}
	})
}
