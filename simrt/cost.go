package simrt

import (
	"bytes"
	"strings"
)

// Cost accounting for the standard-library calls whose running time is linear in an argument.
// Simulated time counts soy statements; without this a quadratic re-scan hidden in
// strings.Contains / strings.Count / regexp would cost one step per call.  The instrumenter
// replaces the whitelisted functions below by these wrappers (same signature, same result) and
// wraps the subject argument of regexp methods in S / B.  One scanned byte is charged 1/8 step.

//go:norace
func charge(n int) {
	s := cur
	if s == nil || n <= 0 {
		return
	}
	s.steps += int64(n/8) + 1
}

// S charges for a linear scan of s and returns it.
func S[T ~string](s T) T { charge(len(s)); return s }

// B charges for a linear scan of b and returns it.
func B[T ~[]byte](b T) T { charge(len(b)); return b }

func StringsIndex(s, sep string) int {
	i := strings.Index(s, sep)
	if i < 0 {
		charge(len(s))
	} else {
		charge(i + len(sep))
	}
	return i
}

func StringsContains(s, sub string) bool { return StringsIndex(s, sub) >= 0 }

func StringsLastIndex(s, sep string) int {
	i := strings.LastIndex(s, sep)
	if i < 0 {
		charge(len(s))
	} else {
		charge(len(s) - i)
	}
	return i
}

func StringsCount(s, sep string) int { charge(len(s)); return strings.Count(s, sep) }

func StringsIndexByte(s string, c byte) int {
	i := strings.IndexByte(s, c)
	if i < 0 {
		charge(len(s))
	} else {
		charge(i + 1)
	}
	return i
}

func StringsIndexRune(s string, r rune) int {
	i := strings.IndexRune(s, r)
	if i < 0 {
		charge(len(s))
	} else {
		charge(i + 1)
	}
	return i
}

func StringsIndexAny(s, chars string) int {
	i := strings.IndexAny(s, chars)
	if i < 0 {
		charge(len(s))
	} else {
		charge(i + 1)
	}
	return i
}

func StringsReplace(s, old, new string, n int) string {
	charge(len(s))
	return strings.Replace(s, old, new, n)
}
func StringsReplaceAll(s, old, new string) string {
	charge(len(s))
	return strings.ReplaceAll(s, old, new)
}
func StringsSplit(s, sep string) []string       { charge(len(s)); return strings.Split(s, sep) }
func StringsToUpper(s string) string            { charge(len(s)); return strings.ToUpper(s) }
func StringsToLower(s string) string            { charge(len(s)); return strings.ToLower(s) }
func StringsTrimSpace(s string) string          { r := strings.TrimSpace(s); charge(len(s) - len(r)); return r }
func StringsRepeat(s string, n int) string      { r := strings.Repeat(s, n); charge(len(r)); return r }
func StringsJoin(a []string, sep string) string { r := strings.Join(a, sep); charge(len(r)); return r }
func StringsFields(s string) []string           { charge(len(s)); return strings.Fields(s) }

func BytesIndex(s, sep []byte) int {
	i := bytes.Index(s, sep)
	if i < 0 {
		charge(len(s))
	} else {
		charge(i + len(sep))
	}
	return i
}
func BytesContains(s, sub []byte) bool { return BytesIndex(s, sub) >= 0 }
func BytesCount(s, sep []byte) int     { charge(len(s)); return bytes.Count(s, sep) }
func BytesIndexByte(s []byte, c byte) int {
	i := bytes.IndexByte(s, c)
	if i < 0 {
		charge(len(s))
	} else {
		charge(i + 1)
	}
	return i
}
func BytesReplace(s, old, new []byte, n int) []byte {
	charge(len(s))
	return bytes.Replace(s, old, new, n)
}
func BytesTrimSpace(s []byte) []byte { r := bytes.TrimSpace(s); charge(len(s) - len(r)); return r }
func BytesEqual(a, b []byte) bool    { return bytes.Equal(a, b) }
