// Command racesense is the sensitivity self-test of the hidden baton: built with -race, its
// "racy" mode must be reported by the race detector in every execution, its "locked" and
// "independent" modes never (see DESIGN.md 3.3).
package main

import (
	"fmt"
	"os"
	"sync"

	"verif/simrt"
)

var shared []int
var counter int
var table = map[string]int{}

func main() {
	mode := os.Args[1]
	var mu sync.Mutex
	var rw sync.RWMutex
	var pool = sync.Pool{New: func() interface{} { return new([4]int) }}
	var done sync.WaitGroup
	ch := make(chan int, 4)
	res := simrt.Run(simrt.Config{Budget: 1_000_000, Chooser: simrt.NewRandomChooser(7, 2)}, func() {
		var wg sync.WaitGroup
		for k := 0; k < 3; k++ {
			k := k
			wg.Add(1)
			simrt.Spawn("t", func() {
				defer wg.Done()
				local := 0
				for i := 0; i < 20; i++ {
					simrt.Yield(10 + k)
					switch mode {
					case "racy-slice":
						shared = append(shared, i)
					case "racy-var":
						counter++
					case "racy-map":
						table["k"]++
					case "locked":
						mu.Lock()
						shared = append(shared, i)
						counter++
						table["k"]++
						mu.Unlock()
					case "racy-under-rlock":
						// a write under a read lock is not protected from other readers
						simrt.RLock(&rw, 100)
						counter++
						simrt.RUnlock(&rw, 101)
					case "racy-beside-pool":
						// using a pool orders nothing but the hand-over of the pooled object
						b := simrt.PoolGet(&pool, 102).(*[4]int)
						b[0]++
						simrt.PoolPut(&pool, b, 103)
						counter++
					case "racy-beside-waitgroup":
						simrt.WgAdd(&done, 1, 104)
						counter++
						simrt.WgDone(&done, 105)
					case "racy-beside-channel":
						// a buffered send that nobody receives orders nothing
						if i < 1 {
							simrt.Send(ch, k, 106)
						}
						counter++
					case "pooled":
						// the pooled object itself is handed over with a happens-before edge
						b := simrt.PoolGet(&pool, 102).(*[4]int)
						b[0]++
						simrt.PoolPut(&pool, b, 103)
					case "wlocked":
						simrt.Lock(&rw, 107)
						counter++
						simrt.Unlock(&rw, 108)
					case "independent":
						local += i
					}
				}
				_ = local
			})
		}
		simrt.Idle()
		wg.Wait()
	})
	fmt.Printf("trace=%x steps=%d switches=%d\n", res.TraceHash, res.Steps, res.Switches)
}
