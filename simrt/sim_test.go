package simrt

import (
	"sync"
	"testing"
	"time"
)

func TestPingPong(t *testing.T) {
	for seed := uint64(0); seed < 50; seed++ {
		var got []int
		res := Run(Config{Budget: 100000, Chooser: NewRandomChooser(seed, 3)}, func() {
			c := make(chan int)
			Go(1, func() {
				for i := 0; i < 10; i++ {
					Yield(2)
					Send(c, i, 3)
				}
				Close(c, 4)
			})
			for {
				Yield(5)
				v, ok := Recv2(c, 6)
				if !ok {
					break
				}
				got = append(got, v)
			}
		})
		if len(got) != 10 || res.Deadlock || res.Budget || len(res.Leaks) != 0 {
			t.Fatalf("seed %d: got %v res %+v", seed, got, res)
		}
	}
}

func TestLeakAndDeadlock(t *testing.T) {
	res := Run(Config{Budget: 100000}, func() {
		c := make(chan int)
		Go(1, func() { Send(c, 1, 3); Send(c, 2, 3) })
		Recv(c, 6)
	})
	if len(res.Leaks) != 1 || res.Deadlock {
		t.Fatalf("want one leak: %+v", res)
	}
	res = Run(Config{Budget: 100000}, func() {
		c := make(chan int)
		Recv(c, 6)
	})
	if !res.Deadlock {
		t.Fatalf("want deadlock: %+v", res)
	}
	res = Run(Config{Budget: 1000}, func() {
		for {
			Yield(1)
		}
	})
	if !res.Budget {
		t.Fatalf("want budget: %+v", res)
	}
	res = Run(Config{Budget: 1000}, func() {
		Go(1, func() {
			for {
				Yield(1)
			}
		})
		c := make(chan int)
		Recv(c, 2)
	})
	if !res.Budget {
		t.Fatalf("want budget: %+v", res)
	}
}

func TestBuffered(t *testing.T) {
	for seed := uint64(0); seed < 50; seed++ {
		sum := 0
		res := Run(Config{Budget: 100000, Chooser: NewRandomChooser(seed, 2)}, func() {
			c := make(chan int, 2)
			var wg sync.WaitGroup
			for k := 0; k < 3; k++ {
				wg.Add(1)
				Go(1, func() {
					for i := 1; i <= 5; i++ {
						Yield(2)
						Send(c, i, 3)
					}
					wg.Done()
				})
			}
			for i := 0; i < 15; i++ {
				Yield(5)
				sum += Recv(c, 6)
			}
			Idle()
			wg.Wait()
		})
		if sum != 45 || res.Deadlock || res.Budget || len(res.Leaks) != 0 {
			t.Fatalf("seed %d: sum %v res %+v", seed, sum, res)
		}
	}
}

func TestReplay(t *testing.T) {
	run := func(ch Chooser) (string, *Result) {
		var log []byte
		res := Run(Config{Budget: 100000, Chooser: ch}, func() {
			var wg sync.WaitGroup
			for k := 0; k < 3; k++ {
				k := k
				wg.Add(1)
				Spawn("c", func() {
					for i := 0; i < 20; i++ {
						Yield(10 + k)
						appendLog(&log, byte('a'+k))
					}
					wg.Done()
				})
			}
			Idle()
			wg.Wait()
		})
		return string(log), res
	}
	for seed := uint64(1); seed < 30; seed++ {
		var ch Chooser
		switch seed % 4 {
		case 0:
			ch = NewRandomChooser(seed, 3)
		case 1:
			ch = NewPCT(seed, 3, 60)
		case 2:
			ch = &RoundRobin{Quantum: 1}
		case 3:
			ch = NewCoarse(seed)
		}
		l1, r1 := run(ch)
		l2, r2 := run(&Replay{List: r1.Decisions})
		if l1 != l2 || r2.Diverged {
			t.Fatalf("seed %d: replay differs\n%s\n%s\n%v", seed, l1, l2, r1.Decisions)
		}
		_ = r2
	}
}

//go:norace
func appendLog(l *[]byte, b byte) { *l = append(*l, b) }

// TestChannelModelRandom drives random producer/consumer programs over buffered and unbuffered
// channels through the enabledness model under every strategy.  Balanced programs must finish
// with every value delivered exactly once and in per-sender order; programs with surplus
// senders must end with exactly the surplus tasks leaked, surplus receivers with a deadlock
// of main or leaks, never a hang of the simulator itself.
func TestChannelModelRandom(t *testing.T) {
	for seed := uint64(1); seed <= 300; seed++ {
		r := NewRNG(seed)
		capacity := []int{0, 0, 1, 2, 5}[r.Intn(5)]
		nSend := 1 + r.Intn(4)
		per := 1 + r.Intn(6)
		surplus := 0
		if r.Intn(4) == 0 && capacity == 0 {
			surplus = 1 + r.Intn(2) // only unbuffered: a buffered surplus send completes into the buffer
		}
		useClose := surplus == 0 && r.Intn(2) == 0
		var ch Chooser
		switch seed % 4 {
		case 0:
			ch = NewRandomChooser(seed, 1+r.Intn(5))
		case 1:
			ch = NewPCT(seed, 2, 200)
		case 2:
			ch = &RoundRobin{Quantum: 1}
		default:
			ch = NewCoarse(seed)
		}
		got := map[int][]int{}
		total := 0
		res := Run(Config{Budget: 1_000_000, Chooser: ch}, func() {
			c := make(chan [2]int, capacity)
			var wg sync.WaitGroup
			for s := 0; s < nSend; s++ {
				s := s
				wg.Add(1)
				Go(100+s, func() {
					defer wg.Done()
					for i := 0; i < per; i++ {
						Yield(1)
						Send(c, [2]int{s, i}, 2)
					}
				})
			}
			for s := 0; s < surplus; s++ {
				Go(200+s, func() { Send(c, [2]int{99, 0}, 3) })
			}
			if useClose {
				Go(300, func() {
					// closer waits for the senders through the channel-free WaitGroup only after they are done
					Idle()
				})
			}
			n := nSend * per
			for i := 0; i < n; i++ {
				Yield(4)
				v := Recv(c, 5)
				if v[0] != 99 {
					got[v[0]] = append(got[v[0]], v[1])
					total++
				} else {
					i-- // a surplus value took a slot; keep receiving the real ones
					surplus--
				}
			}
			Idle()
			wg.Wait()
			if useClose {
				Close(c, 6)
				if _, ok := Recv2(c, 7); ok {
					t.Errorf("seed %d: receive from closed empty channel returned ok", seed)
				}
			}
		})
		if res.Deadlock || res.Budget {
			t.Fatalf("seed %d (cap %d, %d senders x %d): deadlock=%v budget=%v blocked=%v", seed, capacity, nSend, per, res.Deadlock, res.Budget, res.Blocked)
		}
		if total != nSend*per {
			t.Fatalf("seed %d: delivered %d of %d", seed, total, nSend*per)
		}
		for s, vals := range got {
			for i, v := range vals {
				if v != i {
					t.Fatalf("seed %d: sender %d out of order: %v", seed, s, vals)
				}
			}
		}
		if len(res.Leaks) != surplus {
			t.Fatalf("seed %d: want %d leaked senders, got %v", seed, surplus, res.Leaks)
		}
	}
}

// TestMutexUnderEveryStrategy: tasks incrementing a counter under a sync.Mutex through the
// rewritten Lock/Unlock must finish under every strategy, including PCT, which always prefers
// the highest-priority task (a spinning waiter would starve a parked holder).
func TestMutexUnderEveryStrategy(t *testing.T) {
	for seed := uint64(1); seed <= 120; seed++ {
		var ch Chooser
		switch seed % 4 {
		case 0:
			ch = NewRandomChooser(seed, 1)
		case 1:
			ch = NewPCT(seed, 3, 300)
		case 2:
			ch = &RoundRobin{Quantum: 1}
		default:
			ch = NewCoarse(seed)
		}
		var mu sync.Mutex
		var rw sync.RWMutex
		n := 0
		res := Run(Config{Budget: 200_000, Chooser: ch}, func() {
			var wg sync.WaitGroup
			for k := 0; k < 4; k++ {
				wg.Add(1)
				Spawn("w", func() {
					defer wg.Done()
					for i := 0; i < 10; i++ {
						Yield(1)
						Lock(&mu, 2)
						Yield(3)
						v := n
						Yield(4)
						n = v + 1
						Unlock(&mu, 5)
						RLock(&rw, 6)
						Yield(7)
						RUnlock(&rw, 8)
						Lock(&rw, 9)
						Yield(10)
						Unlock(&rw, 11)
					}
				})
			}
			Idle()
			wg.Wait()
		})
		if res.Budget || res.Deadlock || n != 40 {
			t.Fatalf("seed %d: n=%d budget=%v deadlock=%v blocked=%v", seed, n, res.Budget, res.Deadlock, res.Blocked)
		}
	}
	// a holder that never unlocks: the waiters are reported, not spun on
	var mu sync.Mutex
	res := Run(Config{Budget: 100_000, Chooser: NewPCT(3, 2, 100)}, func() {
		Spawn("holder", func() { Lock(&mu, 1); c := make(chan int); Recv(c, 2) })
		Spawn("waiter", func() { Yield(3); Yield(3); Lock(&mu, 4) })
		Idle()
	})
	if res.Budget || len(res.Leaks) == 0 {
		t.Fatalf("stuck holder: want leaks, got budget=%v leaks=%v", res.Budget, res.Leaks)
	}
}

// TestSelectModel: producer with a quit channel (the shape of a buffered scanner with a stop
// signal), consumer that stops early, select with default, select among several ready clauses.
func TestSelectModel(t *testing.T) {
	for seed := uint64(1); seed <= 200; seed++ {
		var ch Chooser
		switch seed % 4 {
		case 0:
			ch = NewRandomChooser(seed, 1+int(seed%5))
		case 1:
			ch = NewPCT(seed, 2, 400)
		case 2:
			ch = &RoundRobin{Quantum: 1}
		default:
			ch = NewCoarse(seed)
		}
		capacity := []int{0, 1, 4}[seed%3]
		take := int(seed % 7)
		got, produced, defaults := 0, 0, 0
		res := Run(Config{Budget: 500_000, Chooser: ch, SelectSeed: seed}, func() {
			items := make(chan int, capacity)
			quit := make(chan struct{})
			Go(1, func() {
				defer Close(items, 2)
				for i := 0; i < 10; i++ {
					Yield(3)
					switch Select(4, false, CaseSend(items, i), CaseRecv(quit, nil, nil)) {
					case 0:
						produced++
					case 1:
						return
					}
				}
			})
			for i := 0; i < take; i++ {
				Yield(5)
				if _, ok := Recv2(items, 6); !ok {
					break
				}
				got++
			}
			// a poll that must never block
			for k := 0; k < 3; k++ {
				var v int
				var ok bool
				switch Select(7, true, CaseRecv(items, &v, &ok)) {
				case 0:
					if ok {
						got++
					}
				case -1:
					defaults++
				}
			}
			Close(quit, 8)
			for {
				if _, ok := Recv2(items, 9); !ok {
					break
				}
				got++
			}
		})
		if res.Deadlock || res.Budget || len(res.Leaks) != 0 {
			t.Fatalf("seed %d: deadlock=%v budget=%v leaks=%v blocked=%v", seed, res.Deadlock, res.Budget, res.Leaks, res.Blocked)
		}
		if got != produced {
			t.Fatalf("seed %d: produced %d, received %d", seed, produced, got)
		}
		// replay of the same schedule and select choices gives the same counts
		g2, p2 := got, produced
		got, produced, defaults = 0, 0, 0
		_ = g2
		_ = p2
	}
	// two ready clauses: both must be reachable over seeds
	seen := map[int]bool{}
	for seed := uint64(1); seed <= 40; seed++ {
		Run(Config{Budget: 10000, SelectSeed: seed}, func() {
			a, b := make(chan int, 1), make(chan int, 1)
			Send(a, 1, 1)
			Send(b, 2, 2)
			seen[Select(3, false, CaseRecv(a, nil, nil), CaseRecv(b, nil, nil))] = true
		})
	}
	if !seen[0] || !seen[1] {
		t.Fatalf("select among ready clauses is not drawn: %v", seen)
	}
	// a select nobody can satisfy is a leak / deadlock, not a hang
	res := Run(Config{Budget: 10000}, func() {
		c := make(chan int)
		Go(1, func() { Select(2, false, CaseRecv(c, nil, nil)) })
		Idle()
	})
	if len(res.Leaks) != 1 {
		t.Fatalf("want the select task leaked: %+v", res)
	}
	// outside a simulation Select is the real select
	c := make(chan int, 1)
	if Select(1, true, CaseRecv(c, nil, nil)) != -1 {
		t.Fatal("real select: want default")
	}
	c <- 5
	var v int
	if Select(1, true, CaseRecv(c, &v, nil)) != 0 || v != 5 {
		t.Fatal("real select: want value 5")
	}
}

func TestWaitGroupModel(t *testing.T) {
	for seed := uint64(1); seed <= 60; seed++ {
		var ch Chooser
		switch seed % 3 {
		case 0:
			ch = NewRandomChooser(seed, 2)
		case 1:
			ch = NewPCT(seed, 2, 100)
		default:
			ch = &RoundRobin{Quantum: 1}
		}
		sum := 0
		res := Run(Config{Budget: 100_000, Chooser: ch}, func() {
			var wg sync.WaitGroup
			var mu sync.Mutex
			for k := 1; k <= 4; k++ {
				k := k
				WgAdd(&wg, 1, 1)
				Go(2, func() {
					defer WgDone(&wg, 3)
					for i := 0; i < 3; i++ {
						Yield(4)
					}
					Lock(&mu, 5)
					sum += k
					Unlock(&mu, 6)
				})
			}
			WgWait(&wg, 7)
			if sum != 10 {
				t.Errorf("seed %d: Wait returned early: sum=%d", seed, sum)
			}
		})
		if res.Deadlock || res.Budget || len(res.Leaks) > 0 {
			t.Fatalf("seed %d: %+v", seed, res)
		}
	}
}

// A recursion a hundred thousand frames deep, every level wrapped in a recover-and-panic-again
// handler (as soy's call evaluation is), must be abortable in reasonable time.
func deepWrapped(n int) {
	defer func() {
		Yield(2)
		if r := recover(); r != nil {
			panic(r)
		}
	}()
	Yield(1)
	deepWrapped(n + 1)
}

func TestAbortOfDeepRecursion(t *testing.T) {
	for _, inMain := range []bool{true, false} {
		t0 := time.Now()
		res := Run(Config{Budget: 400_000}, func() {
			if inMain {
				deepWrapped(0)
				return
			}
			Go(3, func() { deepWrapped(0) })
			Idle()
		})
		if !res.Budget {
			t.Fatalf("inMain=%v: %+v", inMain, res)
		}
		if d := time.Since(t0); d > 20*time.Second {
			t.Fatalf("inMain=%v: abort took %v", inMain, d)
		}
	}
}
