package driver

import (
	"bytes"
	"fmt"
	"os"
	"os/exec"
	"path/filepath"
	"sort"
	"strings"
	"time"
)

// SelfTestDeterminism executes the first units of the simulated checks repeatedly - several
// processes, GOMAXPROCS 1/4/16, worker counts 1 and 16 - and requires every unit's event-log
// digest (trace hashes, simulated step counts, outcomes) to be identical each time.
func SelfTestDeterminism(e *Env, ids []string, units int) int {
	specs := Specs()
	variants := map[string]bool{}
	for _, id := range ids {
		s := specs[id]
		if s == nil {
			fmt.Println("TROUBLE unknown property", id)
			return 2
		}
		variants[simVariant(s)] = true
	}
	var vs []string
	for v := range variants {
		vs = append(vs, v)
	}
	sort.Strings(vs)
	if err := e.Prepare(vs...); err != nil {
		fmt.Println("TROUBLE", err)
		return 2
	}
	type cfg struct {
		procs string
		jobs  int
		block int
	}
	cfgs := []cfg{{"1", 16, 1}, {"4", 16, 2}, {"16", 16, 3}, {"16", 1, 50}, {"2", 8, 1}, {"16", 16, 1}}
	rc := 0
	for _, id := range ids {
		s := specs[id]
		total, _, err := e.Plan(simVariant(s), id, s.extra(e)...)
		if err != nil {
			fmt.Println("TROUBLE", err)
			return 2
		}
		n := units
		if n > total {
			n = total
		}
		seen := map[string]map[string]int{}
		execs := 0
		t0 := time.Now()
		for rep := 0; rep < 5; rep++ {
			for _, c := range cfgs {
				opts := FanOpts{Variant: simVariant(s), Prop: id, Units: Seq(n), Block: c.block, BlockWall: s.BlockWall, Extra: s.extra(e)}
				if s.WorkerEnv != nil {
					opts.Env = s.WorkerEnv(e)
				}
				opts.Env = append(opts.Env, "GOMAXPROCS="+c.procs)
				jobs := e.Jobs
				e.Jobs = c.jobs
				agg, err := e.Fan(opts)
				e.Jobs = jobs
				if err != nil {
					fmt.Println("TROUBLE", err)
					return 2
				}
				execs += agg.Units
				for k, vals := range agg.Obs {
					if seen[k] == nil {
						seen[k] = map[string]int{}
					}
					for v, cnt := range vals {
						seen[k][v] += cnt
					}
				}
			}
		}
		bad := 0
		for k, vals := range seen {
			if len(vals) > 1 {
				bad++
				if bad <= 5 {
					fmt.Printf("  %s unit/key %s has %d different digests: %v\n", id, k, len(vals), vals)
				}
			}
		}
		if bad > 0 {
			fmt.Printf("NONDETERMINISTIC property=%s: %d of %d unit digests differ between executions\n", id, bad, len(seen))
			rc = 2
		} else {
			fmt.Printf("DETERMINISTIC property=%s: %d units x %d executions (5 repetitions x GOMAXPROCS 1,4,16,2 x worker counts 1,8,16 x block sizes 1..50) gave identical event-log digests (%.0fs)\n",
				id, n, execs/max(n, 1), time.Since(t0).Seconds())
		}
	}
	return rc
}

func max(a, b int) int {
	if a > b {
		return a
	}
	return b
}

// simVariant is the build variant whose execution is simulated (and must be deterministic).
func simVariant(s *Spec) string {
	if s.Main == "plain" && len(s.Also) > 0 {
		return s.Also[0]
	}
	return s.Main
}

// SelfTestRaceSense builds simrt/cmd/racesense with -race and requires a report in every
// execution of the racy modes and none in the locked / independent modes, with identical
// schedule traces, at GOMAXPROCS 1, 4 and 16.
func SelfTestRaceSense(e *Env) int {
	bin := filepath.Join(e.Scratch, "racesense")
	cmd := exec.Command("go", "build", "-race", "-o", bin, "./cmd/racesense")
	cmd.Dir = filepath.Join(e.Root, "simrt")
	cmd.Env = GoEnv()
	if out, err := cmd.CombinedOutput(); err != nil {
		fmt.Printf("TROUBLE build racesense: %v\n%s\n", err, out)
		return 2
	}
	rc := 0
	for _, mode := range []string{"racy-slice", "racy-var", "racy-map", "racy-under-rlock", "racy-beside-pool", "racy-beside-waitgroup", "racy-beside-channel", "locked", "wlocked", "pooled", "independent"} {
		reports, runs := 0, 0
		traces := map[string]bool{}
		for _, procs := range []string{"1", "4", "16"} {
			for i := 0; i < 20; i++ {
				c := exec.Command(bin, mode)
				c.Env = append(os.Environ(), "GOMAXPROCS="+procs, "GORACE=halt_on_error=0 exitcode=0")
				var stdout, stderr bytes.Buffer
				c.Stdout, c.Stderr = &stdout, &stderr
				if err := c.Run(); err != nil {
					fmt.Printf("TROUBLE racesense %s: %v\n%s\n", mode, err, stderr.String())
					return 2
				}
				runs++
				if strings.Contains(stderr.String(), "DATA RACE") {
					reports++
				}
				traces[strings.TrimSpace(stdout.String())] = true
			}
		}
		want := 0
		if strings.HasPrefix(mode, "racy") {
			want = runs
		}
		status := "ok"
		if reports != want || len(traces) != 1 {
			status = "FAILED"
			rc = 2
		}
		fmt.Printf("racesense %-22s reports in %d/%d executions (want %d), distinct schedule traces %d (want 1): %s\n", mode, reports, runs, want, len(traces), status)
	}
	return rc
}
