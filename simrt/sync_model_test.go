package simrt

import (
	"sync"
	"testing"
	"time"
)

// a bounded queue with a mutex and two condition variables, the textbook way
type condQueue struct {
	mu       sync.Mutex
	notEmpty *sync.Cond
	notFull  *sync.Cond
	items    []int
	cap      int
}

func (q *condQueue) put(v int) {
	Lock(&q.mu, 1)
	for len(q.items) == q.cap {
		Yield(2)
		CondWait(q.notFull)
	}
	q.items = append(q.items, v)
	CondSignal(q.notEmpty)
	Unlock(&q.mu, 3)
}

func (q *condQueue) get() int {
	Lock(&q.mu, 4)
	for len(q.items) == 0 {
		Yield(5)
		CondWait(q.notEmpty)
	}
	v := q.items[0]
	q.items = q.items[1:]
	CondBroadcast(q.notFull)
	Unlock(&q.mu, 6)
	return v
}

func TestCondModel(t *testing.T) {
	for seed := uint64(1); seed <= 40; seed++ {
		var ch Chooser = NewRandomChooser(seed, 1+int(seed%5))
		if seed%4 == 0 {
			ch = NewPCT(seed, 3, 2000)
		}
		q := &condQueue{cap: 2}
		q.notEmpty, q.notFull = sync.NewCond(&q.mu), sync.NewCond(&q.mu)
		sum := 0
		res := Run(Config{Budget: 1_000_000, Chooser: ch}, func() {
			var wg sync.WaitGroup
			for p := 0; p < 3; p++ {
				p := p
				WgAdd(&wg, 1, 7)
				Go(8, func() {
					defer WgDone(&wg, 9)
					for i := 0; i < 10; i++ {
						q.put(p*100 + i)
					}
				})
			}
			for i := 0; i < 30; i++ {
				sum += q.get()
			}
			WgWait(&wg, 10)
		})
		if res.Deadlock || res.Budget || len(res.Leaks) != 0 || sum != 3*45+10*(0+100+200) {
			t.Fatalf("seed %d: sum=%d %+v", seed, sum, res)
		}
	}
}

func TestCondLostWakeupIsADeadlock(t *testing.T) {
	// Signal before Wait is lost: the simulator must report the hang, not hang itself
	var mu sync.Mutex
	c := sync.NewCond(&mu)
	res := Run(Config{Budget: 100000}, func() {
		CondSignal(c)
		Lock(&mu, 1)
		CondWait(c)
		Unlock(&mu, 2)
	})
	if !res.Deadlock {
		t.Fatalf("%+v", res)
	}
}

func TestTickerModel(t *testing.T) {
	ticks := 0
	res := Run(Config{Budget: 1_000_000, Chooser: NewRandomChooser(3, 2)}, func() {
		tk := NewTicker(10 * time.Millisecond)
		done := After(105 * time.Millisecond)
		var tv time.Time
		var ok bool
	loop:
		for {
			switch Select(1, false, CaseRecv(tk.C, &tv, &ok), CaseRecv(done, &tv, &ok)) {
			case 0:
				ticks++
			case 1:
				break loop
			}
		}
		TickerStop(tk)
		// a ticker that nobody stops and nobody listens to must not keep the run alive
		NewTicker(time.Second)
		Idle()
	})
	if ticks < 9 || ticks > 11 || res.Deadlock || res.Budget || len(res.Leaks) != 0 {
		t.Fatalf("ticks=%d %+v", ticks, res)
	}
}

func TestIdleHorizon(t *testing.T) {
	var leaks []LeakInfo
	res := Run(Config{Budget: 1_000_000}, func() {
		Go(1, func() { Sleep(10 * time.Minute) }) // finishes within the horizon
		Go(2, func() {                            // a poller that never stops: left behind
			tk := NewTicker(time.Minute)
			for {
				Recv(tk.C, 3)
			}
		})
		Go(4, func() { Sleep(100 * time.Hour) }) // still asleep after an hour: left behind
		leaks = Idle()
	})
	if res.Budget || res.Deadlock || len(leaks) != 2 {
		t.Fatalf("leaks=%+v %+v", leaks, res)
	}
}

func TestSyncMapRangeOrder(t *testing.T) {
	var m sync.Map
	for _, k := range []string{"q", "b", "z", "a", "m"} {
		m.Store(k, len(k))
	}
	var got []string
	Run(Config{}, func() {
		SyncMapRange(&m, func(k, v any) bool { got = append(got, k.(string)); return true }, 1)
	})
	if len(got) != 5 || got[0] != "a" || got[4] != "z" {
		t.Fatalf("canonical order expected, got %v", got)
	}
}

func TestRWMutexPendingWriterBlocksReaders(t *testing.T) {
	// reader holds the read lock, a writer arrives, the reader read-locks again: Go deadlocks
	var rw sync.RWMutex
	res := Run(Config{Budget: 100000, Chooser: &RoundRobin{Quantum: 1}}, func() {
		RLock(&rw, 1)
		Go(2, func() {
			Lock(&rw, 3)
			Unlock(&rw, 4)
		})
		for i := 0; i < 20; i++ {
			Yield(5) // the writer gets to its Lock and waits
		}
		RLock(&rw, 6)
		RUnlock(&rw, 7)
		RUnlock(&rw, 8)
	})
	if !res.Deadlock {
		t.Fatalf("a recursive read lock across a waiting writer must deadlock: %+v", res)
	}
}

func TestCondWaitAbortKeepsLockDiscipline(t *testing.T) {
	// a lost signal: the waiter is aborted at the end of the run; its deferred Unlock must not be fatal
	var mu sync.Mutex
	c := sync.NewCond(&mu)
	res := Run(Config{Budget: 100000}, func() {
		Go(1, func() {
			Lock(&mu, 2)
			defer Unlock(&mu, 3)
			CondWait(c)
		})
		Idle()
	})
	if len(res.Leaks) != 1 && !res.Deadlock {
		t.Fatalf("%+v", res)
	}
}

func TestAfterFuncCallbackThatBlocksIsLeftBehind(t *testing.T) {
	var leaks []LeakInfo
	Run(Config{Budget: 100000}, func() {
		ch := make(chan int)
		AfterFunc(time.Millisecond, func() { Send(ch, 1, 9) }) // nobody receives
		leaks = Idle()
	})
	if len(leaks) != 1 {
		t.Fatalf("leaks=%+v", leaks)
	}
}
