package driver

import (
	"crypto/sha256"
	"encoding/hex"
	"encoding/json"
	"fmt"
	"os"
	"path/filepath"
	"regexp"
	"sort"
	"strings"
	"time"
)

// Spec describes how one property is checked.
type Spec struct {
	ID           string
	Level        string // exploration | fault_enumeration
	Rule         string
	Nontrivial   string // name of the distinctness measure reported as distinct_nontrivial
	Variants     []string
	Main         string
	Also         []string // further build variants that run the same units
	Block        int
	QuickWall    time.Duration
	ThoroughWall time.Duration
	BlockWall    time.Duration
	Assumptions  []string
	Components   map[string][]string // real / stub / replaced
	WorkerEnv    func(e *Env) []string
	OnDeath      func(e *Env) func(run, exit int, stderr string, killed bool) *Failure
	// ReplayMatches decides whether a replay result reproduces f (default: a failure with the same key).
	ReplayMatches func(f *Failure, rr *ReplayResult) bool
	// Post runs additional phases after the main fan-out; it may add failures to agg and keys to cov.
	Post func(e *Env, s *Spec, agg *Agg, cov map[string]interface{}) error
	// RequireProbes lists counters that must be non-zero in a run without violations (else exit 2).
	RequireProbes []string
	// ProbesNotApplicable names required probes that cannot fire on this tree for a reason that is
	// not a gap of the workload (e.g. per-write-site probes when the renderer buffers its output
	// and makes a single write call).
	ProbesNotApplicable func(agg *Agg) []string
	// ExtraArgs are passed to every worker invocation.
	ExtraArgs []string
	// ExtraFn computes further worker arguments that depend on the environment.
	ExtraFn func(e *Env) []string
	// Recheck re-executes the first n units in fresh processes and requires identical unit digests
	// (determinism slice inside every run of the check).
	Recheck int
}

func (s *Spec) extra(e *Env) []string {
	out := append([]string{}, s.ExtraArgs...)
	if s.ExtraFn != nil {
		out = append(out, s.ExtraFn(e)...)
	}
	return out
}

// Known is the committed known-findings file.
type Known struct {
	Findings []struct {
		Property string `json:"property"`
		Class    string `json:"class"`
		SiteRe   string `json:"site_re"`
		What     string `json:"what"`
	} `json:"findings"`
	Fixed []struct {
		Property string `json:"property"`
		Commit   string `json:"commit"`
		What     string `json:"what"`
	} `json:"fixed"`
}

func loadKnown(root string) (*Known, error) {
	b, err := os.ReadFile(filepath.Join(root, "known_findings.json"))
	if err != nil {
		if os.IsNotExist(err) {
			return &Known{}, nil
		}
		return nil, err
	}
	var k Known
	if err := json.Unmarshal(b, &k); err != nil {
		return nil, fmt.Errorf("known_findings.json: %v", err)
	}
	return &k, nil
}

func (k *Known) match(prop string, f *Failure) (string, bool) {
	for _, x := range k.Findings {
		if x.Property != prop || x.Class != f.Class {
			continue
		}
		if ok, _ := regexp.MatchString(x.SiteRe, f.Site); ok {
			return x.What, true
		}
	}
	return "", false
}

// ReplayDoc is the replay file (DESIGN.md appendix C).
type ReplayDoc struct {
	Property   string          `json:"property"`
	Class      string          `json:"class"`
	Site       string          `json:"site"`
	Detail     string          `json:"detail"`
	Tree       string          `json:"tree"`
	Seed       uint64          `json:"seed"`
	Run        int             `json:"run"`
	Variant    string          `json:"variant"`
	ReplayMode string          `json:"replay_mode"`
	Minimised  string          `json:"minimised,omitempty"`
	Case       json.RawMessage `json:"case"`
	// replay_mode "process-range": the failure depends on what the worker process did before; the
	// replay re-executes units Range[0] .. Range[0]+Range[1]-1 of tier Tier under Seed in a fresh process
	Tier  string `json:"tier,omitempty"`
	Range []int  `json:"range,omitempty"`
}

func defaultMatch(f *Failure, rr *ReplayResult) bool { return matched(f, rr) != nil }

// matched returns the failure of rr that reproduces f: same class and site; for class "budget"
// the class alone decides, because the site is wherever in the non-terminating loop the step
// budget happened to run out.
func matched(f *Failure, rr *ReplayResult) *Failure {
	for _, g := range rr.Fails {
		if g.Key() == f.Key() {
			return g
		}
	}
	// "race": which pair of accesses to a racy object the detector names first can vary with what
	// ran before in the process; any report reproduces the finding
	if f.Class == "budget" || f.Class == "race" {
		for _, g := range rr.Fails {
			if g.Class == f.Class {
				return g
			}
		}
	}
	return nil
}

// Outcome of a check.
type Outcome struct {
	Violations int
	Known      int
	Lines      []string
}

// Check runs the whole check of one property and returns the process exit code.
func Check(e *Env, s *Spec) int {
	code, err := check(e, s)
	if err != nil {
		fmt.Fprintf(os.Stdout, "TROUBLE property=%s %v\n", s.ID, err)
		return 2
	}
	return code
}

func check(e *Env, s *Spec) (int, error) {
	known, err := loadKnown(e.Root)
	if err != nil {
		return 2, troublef("%v", err)
	}
	if err := e.Prepare(s.Variants...); err != nil {
		return 2, err
	}
	total, planInfo, err := e.Plan(s.Main, s.ID, s.extra(e)...)
	if err != nil {
		return 2, err
	}
	wall := s.QuickWall
	if e.Tier == "thorough" {
		wall = s.ThoroughWall
	}
	var deadline time.Time
	if wall > 0 {
		deadline = time.Now().Add(wall)
	}
	e.logf("%s %s: %d units planned %v", s.ID, e.Tier, total, planInfo)
	opts := FanOpts{Variant: s.Main, Prop: s.ID, Units: Seq(total), Block: s.Block, Deadline: deadline, BlockWall: s.BlockWall, Extra: s.extra(e)}
	if s.WorkerEnv != nil {
		opts.Env = s.WorkerEnv(e)
	}
	if s.OnDeath != nil {
		opts.OnDeath = s.OnDeath(e)
	}
	// Trouble in one variant (a worker that died or hung) must not hide what another variant can
	// report exactly: all variants run, and trouble decides only if nobody reported a failure.
	agg, fanErr := e.Fan(opts)
	if agg == nil {
		return 2, fanErr
	}
	for _, v := range s.Also {
		o2 := opts
		o2.Variant = v
		a2, err := e.Fan(o2)
		if err != nil && fanErr == nil {
			fanErr = err
		}
		if a2 != nil {
			agg.merge(a2, v)
		}
	}
	if fanErr != nil && len(agg.Fails) == 0 {
		return 2, fanErr
	}
	if fanErr != nil {
		e.logf("%s: trouble in one variant (%v); the failures reported by the others are processed first", s.ID, fanErr)
	}
	e.logf("%s: %d/%d units, %d evaluations, %d simulated steps, %d failure reports", s.ID, agg.Units, total, agg.Evals, agg.Steps, len(agg.Fails))
	cov := map[string]interface{}{}
	if s.Recheck > 0 && len(agg.Fails) == 0 {
		n := s.Recheck
		if n > total {
			n = total
		}
		before := agg.DistinctCount("unit_digest")
		o2 := opts
		o2.Units = Seq(n)
		o2.Deadline = time.Time{}
		a2, err := e.Fan(o2)
		if err != nil {
			return 2, err
		}
		for h := range a2.Distinct["unit_digest"] {
			if _, ok := agg.Distinct["unit_digest"][h]; !ok {
				return 2, troublef("determinism failure of the machinery: re-executing units 0..%d in fresh processes gave a different event-log digest (%d digests before)", n-1, before)
			}
		}
		cov["determinism_recheck_units"] = n
		agg.Evals += a2.Evals
		agg.Steps += a2.Steps
	}
	cov["units_planned"] = total
	cov["units_run"] = agg.Units
	cov["plan"] = planInfo
	if s.Post != nil {
		if err := s.Post(e, s, agg, cov); err != nil {
			return 2, err
		}
	}
	out, err := e.processFailures(s, agg, known)
	if err != nil {
		return 2, err
	}
	if out.Violations == 0 {
		// a clean result is believed only if the workload reached what it claims to reach
		skip := map[string]bool{}
		if s.ProbesNotApplicable != nil {
			for _, p := range s.ProbesNotApplicable(agg) {
				skip[p] = true
			}
		}
		for _, p := range s.RequireProbes {
			if agg.Counters[p] == 0 && !skip[p] {
				return 2, troublef("probe %q was never hit (%s tier): the workload or fault mix did not reach what the check claims to cover", p, e.Tier)
			}
		}
	}
	if err := e.writeEvidence(s, agg, cov, out); err != nil {
		return 2, err
	}
	for _, l := range out.Lines {
		fmt.Println(l)
	}
	if out.Violations > 0 {
		return 1, nil
	}
	fmt.Printf("OK property=%s tier=%s seed=%d units=%d evaluations=%d known_findings=%d wall=%.0fs\n", s.ID, e.Tier, e.Seed, agg.Units, agg.Evals, out.Known, time.Since(e.Start).Seconds())
	return 0, nil
}

func (e *Env) processFailures(s *Spec, agg *Agg, known *Known) (*Outcome, error) {
	out := &Outcome{}
	seen := map[string]bool{}
	match := s.ReplayMatches
	if match == nil {
		match = defaultMatch
	}
	var env []string
	if s.WorkerEnv != nil {
		env = s.WorkerEnv(e)
	}
	// failures with an exact replay first; a native disagreement (statistical replay) only counts if
	// nothing exact shows the same component
	sort.SliceStable(agg.Fails, func(i, j int) bool {
		ni, nj := agg.Fails[i].Class == "native-disagreement", agg.Fails[j].Class == "native-disagreement"
		if ni != nj {
			return nj
		}
		return agg.Fails[i].Run < agg.Fails[j].Run
	})
	exactSites := map[string]bool{}
	for _, f := range agg.Fails {
		if f.Class != "native-disagreement" {
			exactSites[f.Site] = true
		}
	}
	n := 0
	var unreproduced []string
	for _, f := range agg.Fails {
		if seen[f.Key()] {
			continue
		}
		seen[f.Key()] = true
		if f.Class == "native-disagreement" && len(exactSites) > 0 {
			continue // already shown, exactly replayable, through the seam
		}
		n++
		doc := &ReplayDoc{Property: s.ID, Class: f.Class, Site: f.Site, Detail: f.Detail, Tree: e.TreeHash, Seed: e.Seed, Run: f.Run,
			Variant: f.Variant, ReplayMode: "exact", Case: f.Replay}
		if f.Class == "native-disagreement" {
			doc.ReplayMode = "native-repetition" // re-runs many native compilations: reproduces with high probability only
		}
		if strings.HasPrefix(f.Site, "process:") {
			doc.ReplayMode = "process-repetition" // several rounds of two fresh processes with different histories
		}
		if len(f.Replay) == 0 {
			return nil, troublef("failure without a replay case: %s %s", f.Key(), f.Detail)
		}
		cand := filepath.Join(e.Scratch, fmt.Sprintf("cand-%d.json", n))
		if err := writeJSON(cand, doc); err != nil {
			return nil, troublef("%v", err)
		}
		var rr *ReplayResult
		if f.Class == "crash" {
			rr = &ReplayResult{} // a crash has no case of its own: it is replayed with its process history below
		} else {
			rr = e.RunReplay(f.Variant, s.ID, cand, 0, env, s.extra(e)...)
		}
		if f.Class == "race" {
			// whether the detector still holds the earlier access in its shadow cells when the
			// later one arrives is not a function of the schedule alone: a report may need
			// more than one execution of the same process log
			for try := 0; try < 2 && !match(f, rr); try++ {
				rr = e.RunReplay(f.Variant, s.ID, cand, 0, env, s.extra(e)...)
			}
			if !match(f, rr) {
				unreproduced = append(unreproduced, fmt.Sprintf("%s (unit %d)", f.Key(), f.Run))
				keep := filepath.Join(e.OutRoot(), "replays", fmt.Sprintf("%s-nonreproducing-%d.json", s.ID, f.Run))
				mkdir(keep)
				writeJSON(keep, doc)
				continue
			}
		}
		rangeMode := false
		if !match(f, rr) && f.Class != "race" && f.Class != "native-disagreement" {
			// (also for the process clauses: what poisoned the process may have been compiled by an
			// earlier unit of the same worker, which a replay of the one unit does not contain)
			// not a function of the case alone: does it depend on what the process did before?  Try
			// the failing unit alone, then the units of the original worker process up to it.
			ranges := [][2]int{{f.Run, 1}}
			if f.ProcStart < f.Run {
				ranges = append(ranges, [2]int{f.ProcStart, f.Run - f.ProcStart + 1})
			}
			for _, rg := range ranges {
				r2 := e.RunRange(f.Variant, s.ID, rg[0], rg[1], 0, env, s.extra(e)...)
				var hit *Failure
				for _, g := range r2.Fails {
					if g.Run == f.Run && matched(f, &ReplayResult{Fails: []*Failure{g}}) != nil {
						hit = g
						break
					}
				}
				if hit != nil {
					rangeMode = true
					doc.ReplayMode, doc.Tier, doc.Range = "process-range", e.Tier, []int{rg[0], rg[1]}
					doc.Detail += fmt.Sprintf("\n(the failing case does not fail in a fresh process on its own: it depends on what the same process executed before it (%d earlier unit(s)); the replay re-executes units %d..%d in one fresh process)", rg[1]-1, rg[0], rg[0]+rg[1]-1)
					break
				}
			}
		}
		if rangeMode {
			if what, ok := known.match(s.ID, f); ok {
				out.Known++
				out.Lines = append(out.Lines, fmt.Sprintf("KNOWN-FINDING: property=%s %s [%s at %s]", s.ID, what, f.Class, f.Site))
				continue
			}
			h := sha256.Sum256([]byte(fmt.Sprintf("%s|%v|%d|%s", f.Key(), doc.Range, e.Seed, e.Tier)))
			path := filepath.Join(e.OutRoot(), "replays", fmt.Sprintf("%s-%s.json", s.ID, hex.EncodeToString(h[:])[:10]))
			mkdir(path)
			if err := writeJSON(path, doc); err != nil {
				return nil, troublef("%v", err)
			}
			out.Violations++
			out.Lines = append(out.Lines, fmt.Sprintf("VIOLATION property=%s replay=%s", s.ID, path))
			out.Lines = append(out.Lines, fmt.Sprintf("  class=%s site=%s", f.Class, f.Site))
			out.Lines = append(out.Lines, fmt.Sprintf("  %s", strings.ReplaceAll(tail(doc.Detail, 1500), "\n", "\n  ")))
			if out.Violations >= 3 {
				break
			}
			continue
		}
		if !match(f, rr) {
			var got []string
			for _, g := range rr.Fails {
				got = append(got, g.Key())
			}
			keep := filepath.Join(e.OutRoot(), "replays", fmt.Sprintf("%s-nonreproducing-%d.json", s.ID, f.Run))
			mkdir(keep)
			writeJSON(keep, doc)
			// the other failures of the run are still processed; if none of them reproduces either, the
			// run ends in exit 2 below
			unreproduced = append(unreproduced, fmt.Sprintf("%s (unit %d; a fresh process observed %v, exit %d, trouble %q; case kept at %s)", f.Key(), f.Run, got, rr.Exit, rr.Trouble, keep))
			continue
		}
		if what, ok := known.match(s.ID, f); ok {
			out.Known++
			out.Lines = append(out.Lines, fmt.Sprintf("KNOWN-FINDING: property=%s %s [%s at %s]", s.ID, what, f.Class, f.Site))
			continue
		}
		min := doc
		if os.Getenv("VERIF_NO_MINIMISE") == "" {
			min = e.minimise(s, f, doc, match, env)
		}
		h := sha256.Sum256(min.Case)
		path := filepath.Join(e.OutRoot(), "replays", fmt.Sprintf("%s-%s.json", s.ID, hex.EncodeToString(h[:])[:10]))
		mkdir(path)
		if err := writeJSON(path, min); err != nil {
			return nil, troublef("%v", err)
		}
		out.Violations++
		out.Lines = append(out.Lines, fmt.Sprintf("VIOLATION property=%s replay=%s", s.ID, path))
		out.Lines = append(out.Lines, fmt.Sprintf("  class=%s site=%s", f.Class, f.Site))
		out.Lines = append(out.Lines, fmt.Sprintf("  %s", strings.ReplaceAll(tail(f.Detail, 1500), "\n", "\n  ")))
		if out.Violations >= 3 {
			break
		}
	}
	if len(unreproduced) > 0 {
		if out.Violations == 0 {
			// a detector report that three fresh processes could not repeat is neither believed nor dropped
			return nil, troublef("failures that did not reproduce in fresh processes (neither alone nor with their process history): %v", unreproduced)
		}
		out.Lines = append(out.Lines, fmt.Sprintf("  note: further failure reports did not reproduce in fresh processes: %v", unreproduced))
	}
	return out, nil
}

func writeJSON(path string, v interface{}) error {
	b, err := json.MarshalIndent(v, "", " ")
	if err != nil {
		return err
	}
	return os.WriteFile(path, b, 0o644)
}

func (e *Env) writeEvidence(s *Spec, agg *Agg, cov map[string]interface{}, out *Outcome) error {
	wall := time.Since(e.Start).Seconds()
	cov["evaluations"] = agg.Evals
	nt := agg.DistinctCount(s.Nontrivial)
	cov["distinct_nontrivial"] = nt
	cov["rule"] = s.Rule
	var samples []interface{}
	for _, sm := range agg.Samples {
		var v interface{}
		if json.Unmarshal(sm, &v) == nil {
			samples = append(samples, v)
		}
		if len(samples) >= 8 {
			break
		}
	}
	cov["samples"] = samples
	cov["exhaustive"] = false
	cov["simulated_steps"] = agg.Steps
	if wall > 0 {
		cov["evaluations_per_hour"] = int64(float64(agg.Evals) / wall * 3600)
		cov["units_per_hour"] = int64(float64(agg.Units) / wall * 3600)
	}
	distinct := map[string]int{}
	for k, m := range agg.Distinct {
		distinct[k] = len(m)
	}
	cov["distinct"] = distinct
	cov["counters"] = agg.Counters
	cov["components"] = s.Components
	cov["tree"] = e.TreeHash
	cov["known_findings_seen"] = out.Known
	if e.InstRep != nil {
		cov["instrumentation"] = map[string]interface{}{"sites": len(e.InstRep.Sites), "kinds": e.InstRep.Counts,
			"skipped_functions": e.InstRep.Skipped, "unmodelled_sources": e.InstRep.Unmodelled}
	}
	ev := map[string]interface{}{
		"property_id": s.ID,
		"tier":        e.Tier,
		"seed":        e.Seed,
		"level":       s.Level,
		"coverage":    cov,
		"assumptions": s.Assumptions,
		"wall_s":      wall,
		"violations":  out.Violations,
	}
	path := filepath.Join(e.OutRoot(), "evidence", s.ID+".json")
	mkdir(path)
	if nt < 2 || agg.Evals < 1 || len(samples) < 1 {
		return troublef("evidence would be empty (evaluations=%d distinct=%d samples=%d)", agg.Evals, nt, len(samples))
	}
	return writeJSON(path, ev)
}

// Replay rebuilds from the current tree and re-executes exactly one replay file.
func Replay(e *Env, s *Spec, doc *ReplayDoc, file string) int {
	if err := e.Prepare(s.Variants...); err != nil {
		fmt.Printf("TROUBLE property=%s %v\n", s.ID, err)
		return 2
	}
	var env []string
	if s.WorkerEnv != nil {
		env = s.WorkerEnv(e)
	}
	variant := doc.Variant
	if variant == "" {
		variant = s.Main
	}
	var rr *ReplayResult
	if doc.ReplayMode == "process-range" && len(doc.Range) == 2 {
		// the worker is a deterministic function of (seed, tier, unit range)
		e.Seed, e.Tier = doc.Seed, doc.Tier
		rr = e.RunRange(variant, s.ID, doc.Range[0], doc.Range[1], 0, env, s.extra(e)...)
		var last []*Failure
		for _, g := range rr.Fails {
			if g.Run == doc.Run {
				last = append(last, g)
			}
		}
		rr.Fails = last
	} else {
		rr = e.RunReplay(variant, s.ID, file, 0, env, s.extra(e)...)
	}
	if rr.Trouble != "" {
		fmt.Printf("TROUBLE property=%s %s\n", s.ID, rr.Trouble)
		return 2
	}
	want := &Failure{Class: doc.Class, Site: doc.Site}
	match := s.ReplayMatches
	if match == nil {
		match = defaultMatch
	}
	for _, g := range rr.Fails {
		fmt.Printf("observed: class=%s site=%s\n  %s\n", g.Class, g.Site, strings.ReplaceAll(tail(g.Detail, 1500), "\n", "\n  "))
	}
	if match(want, rr) {
		fmt.Printf("VIOLATION property=%s replay=%s\n", s.ID, file)
		return 1
	}
	if len(rr.Fails) > 0 {
		fmt.Printf("VIOLATION property=%s replay=%s (a different failure than recorded: recorded %s)\n", s.ID, file, want.Key())
		return 1
	}
	fmt.Printf("OK property=%s replay=%s does not fail on the current tree\n", s.ID, file)
	return 0
}

// Survey runs the main fan-out of a check and lists every distinct failure key without
// reproducing or minimising (a development aid; it writes no evidence).
func Survey(e *Env, s *Spec) int {
	if err := e.Prepare(s.Variants...); err != nil {
		fmt.Println("TROUBLE", err)
		return 2
	}
	total, _, err := e.Plan(s.Main, s.ID, s.extra(e)...)
	if err != nil {
		fmt.Println("TROUBLE", err)
		return 2
	}
	opts := FanOpts{Variant: s.Main, Prop: s.ID, Units: Seq(total), Block: s.Block, BlockWall: s.BlockWall, Extra: s.extra(e), MaxFails: 100000}
	if s.WorkerEnv != nil {
		opts.Env = s.WorkerEnv(e)
	}
	if s.OnDeath != nil {
		opts.OnDeath = s.OnDeath(e)
	}
	agg, err := e.Fan(opts)
	if err != nil {
		fmt.Println("TROUBLE", err)
	}
	count := map[string]int{}
	first := map[string]*Failure{}
	for _, f := range agg.Fails {
		count[f.Key()]++
		if first[f.Key()] == nil {
			first[f.Key()] = f
		}
	}
	keys := make([]string, 0, len(count))
	for k := range count {
		keys = append(keys, k)
	}
	sort.Strings(keys)
	fmt.Printf("units=%d evals=%d steps=%d distinct failure keys=%d\n", agg.Units, agg.Evals, agg.Steps, len(keys))
	for _, k := range keys {
		f := first[k]
		fmt.Printf("%5d x %s\n        %s\n        case: %s\n", count[k], k, tail(f.Detail, 300), tail(string(f.Replay), 400))
	}
	for _, k := range agg.SortedCounterKeys() {
		if strings.HasPrefix(k, "max_") {
			fmt.Printf("%s=%d\n", k, agg.Counters[k])
		}
	}
	return 0
}
