// Package driver snapshots the tree under test, instruments and builds it, fans work units
// out over worker processes, and turns their reports into evidence, replay files and the
// exit code of a check.
package driver

import (
	"bytes"
	"crypto/sha256"
	"encoding/hex"
	"fmt"
	"io"
	"os"
	"os/exec"
	"path/filepath"
	"sort"
	"strings"
	"time"

	"verif/tool/internal/instrument"
)

// Env is the environment of one invocation.
type Env struct {
	Root    string // /verif (or a snapshot of it)
	Repo    string // tree under test
	Scratch string
	Seed    uint64
	Tier    string
	Jobs    int
	Log     io.Writer
	Start   time.Time

	TreeHash string
	Sites    string // sites.json of the instrumented copy
	bins     map[string]string
	InstRep  *instrument.Report
}

// GoEnv is the environment of every go invocation.
func GoEnv() []string {
	env := os.Environ()
	env = append(env, "GOFLAGS=-mod=mod", "GOPROXY=off", "GOSUMDB=off", "GOTOOLCHAIN=local", "CGO_ENABLED=1")
	return env
}

func (e *Env) logf(format string, a ...interface{}) {
	fmt.Fprintf(e.Log, "[%6.1fs] "+format+"\n", append([]interface{}{time.Since(e.Start).Seconds()}, a...)...)
}

// Trouble is machinery failure: exit 2, never VIOLATION.
type Trouble struct{ Msg string }

func (t *Trouble) Error() string { return t.Msg }

func troublef(format string, a ...interface{}) error {
	return &Trouble{Msg: fmt.Sprintf(format, a...)}
}

func copyTree(src, dst string) (string, error) {
	h := sha256.New()
	var files []string
	err := filepath.Walk(src, func(p string, info os.FileInfo, err error) error {
		if err != nil {
			return err
		}
		rel, _ := filepath.Rel(src, p)
		if info.IsDir() {
			if info.Name() == ".git" {
				return filepath.SkipDir
			}
			return os.MkdirAll(filepath.Join(dst, rel), 0o755)
		}
		if !info.Mode().IsRegular() {
			return nil
		}
		files = append(files, rel)
		return nil
	})
	if err != nil {
		return "", err
	}
	sort.Strings(files)
	for _, rel := range files {
		b, err := os.ReadFile(filepath.Join(src, rel))
		if err != nil {
			return "", err
		}
		if err := os.WriteFile(filepath.Join(dst, rel), b, 0o644); err != nil {
			return "", err
		}
		if strings.HasSuffix(rel, ".go") || strings.HasSuffix(rel, ".soy") || rel == "go.mod" {
			fmt.Fprintf(h, "%s\x00%d\x00", rel, len(b))
			h.Write(b)
		}
	}
	return hex.EncodeToString(h.Sum(nil))[:16], nil
}

func patchGoMod(dir, root, plainDir string) error {
	p := filepath.Join(dir, "go.mod")
	b, err := os.ReadFile(p)
	if err != nil {
		return err
	}
	// The copy is raised to go 1.21 (generics for verif/simrt, but before the go1.22 loop-variable
	// change).  From go 1.17 on the module graph is pruned, so every module of the original build
	// list is pinned explicitly to the version the unmodified tree selects.
	cmd := exec.Command("go", "list", "-m", "-f", "{{if not .Main}}{{.Path}} {{.Version}}{{end}}", "all")
	cmd.Dir = plainDir
	cmd.Env = GoEnv()
	out, err := cmd.Output()
	if err != nil {
		return fmt.Errorf("go list -m all: %v", err)
	}
	lines := strings.Split(string(b), "\n")
	for i, l := range lines {
		if strings.HasPrefix(l, "go ") {
			lines[i] = "go 1.21"
		}
	}
	s := strings.Join(lines, "\n")
	s += "\nrequire (\n"
	for _, l := range strings.Split(strings.TrimSpace(string(out)), "\n") {
		l = strings.TrimSpace(l)
		if l == "" || strings.Contains(string(b), strings.Replace(l, " ", " ", 1)+"\n") {
			continue
		}
		s += "\t" + l + " // indirect\n"
	}
	s += ")\n"
	s += fmt.Sprintf("\nrequire verif/simrt v0.0.0\n\nreplace verif/simrt => %s\n", filepath.Join(root, "simrt"))
	return os.WriteFile(p, []byte(s), 0o644)
}

// OutRoot is where evidence and replay files are written: /verif, or $VERIF_OUT (used to run
// several checks against different trees side by side).
func (e *Env) OutRoot() string {
	if o := os.Getenv("VERIF_OUT"); o != "" {
		return o
	}
	return e.Root
}

// Prepare snapshots the tree and builds the requested worker variants
// ("plain", "inst", "race").
func (e *Env) Prepare(variants ...string) error {
	e.bins = map[string]string{}
	need := map[string]bool{}
	for _, v := range variants {
		need[v] = true
	}
	plain := filepath.Join(e.Scratch, "plain", "soy")
	hash, err := copyTree(e.Repo, plain)
	if err != nil {
		return troublef("snapshot of %s failed: %v", e.Repo, err)
	}
	e.TreeHash = hash
	e.logf("snapshot of %s taken (tree %s)", e.Repo, hash)
	if need["inst"] || need["race"] {
		inst := filepath.Join(e.Scratch, "inst", "soy")
		if _, err := copyTree(e.Repo, inst); err != nil {
			return troublef("snapshot failed: %v", err)
		}
		rep, err := instrument.Run(instrument.Options{Dir: inst, ExcludeSuffix: []string{"/soyweb", "/xgettext-soy"}, StatementYield: true})
		if err != nil {
			return troublef("instrumenter failed: %v", err)
		}
		e.InstRep = rep
		e.Sites = filepath.Join(e.Scratch, "inst", "sites.json")
		if err := instrument.WriteSites(rep, e.Sites); err != nil {
			return troublef("sites.json: %v", err)
		}
		if err := patchGoMod(inst, e.Root, plain); err != nil {
			return troublef("go.mod of the instrumented copy: %v", err)
		}
		e.logf("instrumented: %d files, %d sites %v; skipped %v; unmodelled %v", rep.Files, len(rep.Sites), rep.Counts, rep.Skipped, rep.Unmodelled)
		if len(rep.Unmodelled) > 0 {
			// a source of blocking, time or order the simulator has no model for: what it would report
			// about this tree, clean or not, could not be trusted
			return troublef("the tree uses primitives the simulator does not model: %v", rep.Unmodelled)
		}
	}
	type job struct {
		variant, soy string
		race         bool
	}
	var jobs []job
	if need["plain"] {
		jobs = append(jobs, job{"plain", plain, false})
	}
	if need["inst"] {
		jobs = append(jobs, job{"inst", filepath.Join(e.Scratch, "inst", "soy"), false})
	}
	if need["race"] {
		jobs = append(jobs, job{"race", filepath.Join(e.Scratch, "inst", "soy"), true})
	}
	errs := make(chan error, len(jobs))
	for _, j := range jobs {
		j := j
		go func() { errs <- e.buildWorker(j.variant, j.soy, j.race) }()
	}
	for range jobs {
		if err := <-errs; err != nil {
			return err
		}
	}
	return nil
}

func (e *Env) buildWorker(variant, soyDir string, race bool) error {
	t0 := time.Now()
	harness := filepath.Join(e.Root, "harness")
	mod := filepath.Join(e.Scratch, variant+"-harness.mod")
	content := fmt.Sprintf("module verif/harness\n\ngo 1.21\n\nrequire (\n\tgithub.com/robfig/soy v0.0.0\n\tverif/simrt v0.0.0\n)\n\nreplace github.com/robfig/soy => %s\n\nreplace verif/simrt => %s\n",
		soyDir, filepath.Join(e.Root, "simrt"))
	if err := os.WriteFile(mod, []byte(content), 0o644); err != nil {
		return troublef("%v", err)
	}
	sum, err := os.ReadFile(filepath.Join(e.Repo, "go.sum"))
	if err != nil {
		return troublef("go.sum: %v", err)
	}
	if err := os.WriteFile(filepath.Join(e.Scratch, variant+"-harness.sum"), sum, 0o644); err != nil {
		return troublef("%v", err)
	}
	bin := filepath.Join(e.Scratch, "bin", "worker-"+variant)
	os.MkdirAll(filepath.Dir(bin), 0o755)
	args := []string{"build", "-trimpath", "-modfile=" + mod, "-o", bin}
	if race {
		args = append(args, "-race")
	}
	args = append(args, ".")
	cmd := exec.Command("go", args...)
	cmd.Dir = harness
	cmd.Env = GoEnv()
	var out bytes.Buffer
	cmd.Stdout, cmd.Stderr = &out, &out
	if err := cmd.Run(); err != nil {
		return troublef("build of the %s worker failed (the tree under test or the instrumented copy does not compile):\n%s", variant, out.String())
	}
	e.bins[variant] = bin
	e.logf("built worker-%s in %.1fs", variant, time.Since(t0).Seconds())
	return nil
}

// Bin returns the worker binary of a variant.
func (e *Env) Bin(variant string) string { return e.bins[variant] }

// SnapshotDir returns the plain snapshot of the tree.
func (e *Env) SnapshotDir() string { return filepath.Join(e.Scratch, "plain", "soy") }
