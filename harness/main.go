// Command worker executes work units of one property check; the driver (cmd/verif) fans it out.
package main

import (
	"fmt"
	"os"

	"verif/harness/internal/wk"
	"verif/harness/props"
)

func main() {
	c := wk.Parse()
	switch c.Prop {
	case "C05":
		props.C05(c)
	case "C18":
		props.C18(c)
	case "C12":
		props.C12(c)
	case "C08":
		props.C08(c)
	case "C06":
		props.C06(c)
	case "C09":
		props.C09(c)
	case "C13":
		props.C13(c)
	case "C10":
		props.C10(c)
	default:
		fmt.Fprintln(os.Stderr, "worker: unknown property", c.Prop)
		os.Exit(2)
	}
}
