#!/bin/sh
# usage: run_all.sh quick|thorough [ids...]   (run from the /verif root or a snapshot of it)
set -u
export GOFLAGS=-mod=mod GOPROXY=off GOSUMDB=off GOTOOLCHAIN=local
tier=${1:-quick}; shift
ids=${*:-C05 C06 C08 C09 C10 C12 C13 C18}
root=$(pwd)
(cd tool && go build -o "$root/bin/verif" ./cmd/verif) || exit 2
rc=0
for id in $ids; do
  echo "=== $id $tier"
  "$root/bin/verif" check "$id" --tier "$tier" 2>&1 | grep -E "^OK|VIOLATION|TROUBLE|KNOWN-FINDING|^  |units," 
  r=$?
done
exit $rc
