#!/usr/bin/env python3
"""Runs registered checks against one seeded change (a patch that breaks a property).

usage: seedcheck.py <seeded-dir> [--checks C09,C08] [--tier quick] [--skip-demo] [--side] [--fast]

--side  writes evidence and replays of the run under a private directory (VERIF_OUT), so that several
        seedchecks can run side by side; --fast skips the minimisation of replay files (regression runs).

<seeded-dir> holds patch.diff and meta.json:
  {"property": "C09", "demo": {"file": "demo_test.go", "dest": "soyhtml", "cmd": "go test -race -run TestDemo ./soyhtml/"},
   "checks": ["C09"], ...}
The patch is applied to a scratch worktree of /repo's HEAD under /tmp (never to /repo itself); the
worktree is removed afterwards.  For every check the exit code and the VIOLATION lines are
recorded in <seeded-dir>/result.json.
"""
import json, os, shutil, subprocess, sys, tempfile, time

ENV = dict(os.environ, GOFLAGS="-mod=mod", GOPROXY="off", GOSUMDB="off", GOTOOLCHAIN="local")
ROOT = os.path.dirname(os.path.dirname(os.path.abspath(__file__)))


def run(cmd, cwd, timeout=3600, env=None):
    p = subprocess.run(cmd, cwd=cwd, shell=isinstance(cmd, str), env=env or ENV, stdout=subprocess.PIPE, stderr=subprocess.STDOUT, timeout=timeout)
    return p.returncode, p.stdout.decode("utf-8", "replace")


def main():
    args = sys.argv[1:]
    if not args:
        print(__doc__)
        sys.exit(2)
    d = os.path.abspath(args[0])
    meta = json.load(open(os.path.join(d, "meta.json")))
    checks = meta.get("checks") or [meta["property"]]
    tier = "quick"
    skip_demo = False
    side = fast = regress = False
    i = 1
    while i < len(args):
        if args[i] == "--checks":
            checks = args[i + 1].split(",")
            i += 1
        elif args[i] == "--tier":
            tier = args[i + 1]
            i += 1
        elif args[i] == "--skip-demo":
            skip_demo = True
        elif args[i] == "--side":
            side = True
        elif args[i] == "--fast":
            fast = True
        elif args[i] == "--regress":
            # regression run: side by side, no minimisation, no demo; result.json and replays stay as they are
            side = fast = skip_demo = regress = True
        i += 1
    wt = tempfile.mkdtemp(prefix="seedwt-")
    os.rmdir(wt)
    res = {"seeded": os.path.basename(d), "property": meta["property"], "tier": tier, "checks": {}}
    try:
        rc, out = run(["git", "-C", "/repo", "worktree", "add", "--detach", "-q", wt, "HEAD"], "/")
        if rc != 0:
            print(out)
            sys.exit(2)
        demo = meta.get("demo")
        if demo and not skip_demo:
            dest = os.path.join(wt, demo["dest"], os.path.basename(demo["file"]))
            shutil.copy(os.path.join(d, demo["file"]), dest)
            rc0, out0 = run(demo["cmd"], wt, timeout=1200)
            res["demo_without_patch"] = "pass" if rc0 == 0 else "FAIL"
            os.remove(dest)
        rc, out = run(["git", "-C", wt, "apply", os.path.join(d, "patch.diff")], "/")
        if rc != 0:
            print("patch does not apply:", out)
            sys.exit(2)
        rc, out = run("go build ./... && go test -vet=off -count=1 ./...", wt, timeout=1800)
        res["builds_and_suite_passes"] = rc == 0
        if rc != 0:
            res["suite_output"] = out[-2000:]
        if demo and not skip_demo:
            dest = os.path.join(wt, demo["dest"], os.path.basename(demo["file"]))
            shutil.copy(os.path.join(d, demo["file"]), dest)
            rc1, out1 = run(demo["cmd"], wt, timeout=1200)
            res["demo_with_patch"] = "pass" if rc1 == 0 else "FAIL"
            res["demo_output_with_patch"] = out1[-1500:]
            os.remove(dest)
        for c in checks:
            t0 = time.time()
            env = dict(ENV, VERIF_REPO=wt, VERIF_TIER=tier)
            outdir = ROOT
            if side:
                outdir = tempfile.mkdtemp(prefix="seedout-")
                env["VERIF_OUT"] = outdir
            if fast:
                env["VERIF_NO_MINIMISE"] = "1"
            rc, out = run([os.path.join(ROOT, "bin", "verif"), "check", c, "--tier", tier], ROOT, timeout=7200, env=env)
            if rc == 2 and regress:
                # on a loaded machine a watchdog may fire: one more try before the trouble is recorded
                rc, out = run([os.path.join(ROOT, "bin", "verif"), "check", c, "--tier", tier], ROOT, timeout=7200, env=env)
            lines = [l for l in out.splitlines() if l.startswith(("VIOLATION", "TROUBLE", "OK ", "KNOWN-FINDING", "  class="))]
            res["checks"][c] = {"exit": rc, "lines": lines[:12], "wall_s": round(time.time() - t0)}
            # replay files written for the patched tree are kept with the seeded change
            rdir = os.path.join(outdir, "replays")
            if os.path.isdir(rdir) and not regress:
                for f in os.listdir(rdir):
                    fp = os.path.join(rdir, f)
                    if os.path.getmtime(fp) >= t0 - 1:
                        os.makedirs(os.path.join(d, "replays"), exist_ok=True)
                        shutil.move(fp, os.path.join(d, "replays", f))
            # evidence and replays written during a seeded run belong to the patched tree: drop them
            if side:
                shutil.rmtree(outdir, ignore_errors=True)
            else:
                run("git checkout -- evidence 2>/dev/null; true", ROOT)
    finally:
        run(["git", "-C", "/repo", "worktree", "remove", "--force", wt], "/")
        run(["git", "-C", "/repo", "worktree", "prune"], "/")
    if regress:
        print("REGRESS %s %s" % (res["seeded"], " ".join("%s=%d" % (c, v["exit"]) for c, v in sorted(res["checks"].items()))))
        return
    # a partial re-run (--checks / --skip-demo) keeps what earlier runs established
    rp = os.path.join(d, "result.json")
    if os.path.exists(rp):
        try:
            old = json.load(open(rp))
            for k, v in old.get("checks", {}).items():
                res["checks"].setdefault(k, v)
            for k in ("demo_without_patch", "demo_with_patch", "demo_output_with_patch"):
                if k not in res and k in old:
                    res[k] = old[k]
        except Exception:
            pass
    json.dump(res, open(rp, "w"), indent=1)
    print(json.dumps(res, indent=1))


if __name__ == "__main__":
    main()
