package simrt

import (
	"fmt"
	"reflect"
	"runtime"
	"sort"
	"strings"
	"sync"
	"unsafe"
)

// The map-order seam (DESIGN.md 3.5).  Instrumented code iterates `for _, k := range
// simrt.MapKeys(m, site)` instead of `for k := range m`; which of the orders Go allows is used
// is a decision of the installed MapPlan, so it is seeded, logged and replayable.

// MapDecision is one non-canonical order decision: the Exec-th execution (0-based) of range
// site Site iterated a map of N keys with decision D.  For single-bucket maps of at most 8
// keys D is a rotation (1..N-1) of the slot order; otherwise D is the seed of a permutation of
// the sorted keys.
type MapDecision struct {
	Site int    `json:"site"`
	Exec int    `json:"exec"`
	N    int    `json:"n"`
	D    uint32 `json:"d"`
	Rot  bool   `json:"rot"`
}

// MapPlan decides iteration orders.  A nil plan (the default) means native Go order outside a
// simulation and canonical order inside one.
type MapPlan struct {
	mu       sync.Mutex
	mode     int
	rng      *RNG
	prob     float64 // probability that a given execution is perturbed (random mode)
	site     int     // single-site mode
	d        uint32
	explicit map[[2]int]uint32
	execs    map[int]int
	Log      []MapDecision
	// statistics
	Calls         int64
	Perturbed     int64
	UnstableSites map[int]int // canonical sort had ties broken by native order
	SiteCalls     map[int]int
	SiteMaxN      map[int]int
}

const (
	planCanonical = iota
	planRandom
	planSingle
	planExplicit
)

// CanonicalPlan holds every site at decision 0.
func CanonicalPlan() *MapPlan { return newPlan(planCanonical) }

// RandomPlan perturbs each execution of each site independently with probability prob.
func RandomPlan(seed uint64, prob float64) *MapPlan {
	p := newPlan(planRandom)
	p.rng = NewRNG(seed)
	p.prob = prob
	return p
}

// SingleSitePlan applies decision d at every execution of one site and is canonical elsewhere.
func SingleSitePlan(site int, d uint32) *MapPlan {
	p := newPlan(planSingle)
	p.site, p.d = site, d
	return p
}

// ExplicitPlan replays a decision list.
func ExplicitPlan(list []MapDecision) *MapPlan {
	p := newPlan(planExplicit)
	p.explicit = map[[2]int]uint32{}
	for _, d := range list {
		p.explicit[[2]int{d.Site, d.Exec}] = d.D
	}
	return p
}

func newPlan(mode int) *MapPlan {
	return &MapPlan{mode: mode, execs: map[int]int{}, UnstableSites: map[int]int{}, SiteCalls: map[int]int{}, SiteMaxN: map[int]int{}}
}

var mapPlan *MapPlan

// SetMapPlan installs p (nil = default behaviour) and returns the previous plan.
func SetMapPlan(p *MapPlan) *MapPlan {
	old := mapPlan
	mapPlan = p
	return old
}

//go:norace
func getPlan() *MapPlan { return mapPlan }

// decide returns the decision for one execution of site over n keys.
func (p *MapPlan) decide(site, n int, rot bool) uint32 {
	if p.mode == planCanonical {
		return 0
	}
	p.mu.Lock()
	defer p.mu.Unlock()
	exec := p.execs[site]
	p.execs[site] = exec + 1
	p.Calls++
	p.SiteCalls[site]++
	if n > p.SiteMaxN[site] {
		p.SiteMaxN[site] = n
	}
	if n < 2 {
		return 0
	}
	var d uint32
	switch p.mode {
	case planRandom:
		if p.rng.Float() < p.prob {
			if rot {
				d = uint32(1 + p.rng.Intn(n-1))
			} else {
				d = uint32(1 + p.rng.Intn(1<<30))
			}
		}
	case planSingle:
		if site == p.site {
			d = p.d
			if rot {
				d = d % uint32(n)
			}
		}
	case planExplicit:
		d = p.explicit[[2]int{site, exec}]
		if rot {
			d = d % uint32(n)
		}
	}
	if d != 0 {
		p.Perturbed++
		p.Log = append(p.Log, MapDecision{Site: site, Exec: exec, N: n, D: d, Rot: rot})
	}
	return d
}

func (p *MapPlan) unstable(site int) {
	if p.mode == planCanonical {
		return
	}
	p.mu.Lock()
	p.UnstableSites[site]++
	p.mu.Unlock()
}

// hmapHeader mirrors the first fields of runtime.hmap for go1.23 and earlier.
type hmapHeader struct {
	count int
	flags uint8
	B     uint8
}

var oldMapLayout = func() bool {
	v := runtime.Version()
	for _, p := range []string{"go1.18", "go1.19", "go1.20", "go1.21", "go1.22", "go1.23"} {
		if strings.HasPrefix(v, p) {
			return true
		}
	}
	return false
}()

// singleBucket reports whether the map behind pointer mp certainly lives in one bucket, in
// which case Go iterates it in a rotation of slot order.
func singleBucket(mp unsafe.Pointer, n int) bool {
	if !oldMapLayout || mp == nil || n > 8 {
		return false
	}
	return (*hmapHeader)(mp).B == 0
}

type keyed[K any] struct {
	k    K
	kind int // 0 string, 1 int, 2 position+text
	s    string
	i    int64
}

type positioner interface{ String() string }

func sortKey(v interface{}) (kind int, s string, i int64) {
	switch x := v.(type) {
	case string:
		return 0, x, 0
	case int:
		return 1, "", int64(x)
	case int64:
		return 1, "", x
	case uint64:
		return 1, "", int64(x)
	}
	rv := reflect.ValueOf(v)
	switch rv.Kind() {
	case reflect.String:
		return 0, rv.String(), 0
	case reflect.Int, reflect.Int8, reflect.Int16, reflect.Int32, reflect.Int64:
		return 1, "", rv.Int()
	case reflect.Uint, reflect.Uint8, reflect.Uint16, reflect.Uint32, reflect.Uint64:
		return 1, "", int64(rv.Uint())
	case reflect.Bool:
		if rv.Bool() {
			return 1, "", 1
		}
		return 1, "", 0
	}
	// nodes: order by Position() then String()
	var pos int64 = -1
	if m := rv.MethodByName("Position"); m.IsValid() && m.Type().NumIn() == 0 && m.Type().NumOut() == 1 {
		out := m.Call(nil)[0]
		switch out.Kind() {
		case reflect.Int, reflect.Int8, reflect.Int16, reflect.Int32, reflect.Int64:
			pos = out.Int()
		}
	}
	txt := ""
	if st, ok := v.(positioner); ok {
		func() {
			defer func() { recover() }()
			txt = st.String()
		}()
	} else {
		txt = fmt.Sprintf("%T", v)
	}
	return 2, txt, pos
}

func lessKey(ak int, as string, ai int64, bk int, bs string, bi int64) int {
	if ak != bk {
		if ak < bk {
			return -1
		}
		return 1
	}
	if ai != bi {
		if ai < bi {
			return -1
		}
		return 1
	}
	return strings.Compare(as, bs)
}

// ZeroVal returns the zero value of m's element type (the rewritten range loop declares its value
// variable with it, once, before the loop).
func ZeroVal[K comparable, V any](m map[K]V) V {
	var z V
	return z
}

// MapKeys returns the keys of m in the order the installed plan dictates.
func MapKeys[K comparable, V any](m map[K]V, site int) []K {
	n := len(m)
	keys := make([]K, 0, n)
	for k := range m {
		keys = append(keys, k)
	}
	p := getPlan()
	if p == nil {
		if getCur() == nil {
			return keys // native order, untouched
		}
		p = defaultCanonical
	}
	if n < 2 {
		p.decide(site, n, true)
		return keys
	}
	ks := make([]keyed[K], n)
	quietly(func() {
		for i, k := range keys {
			kind, s, iv := sortKey(any(k))
			ks[i] = keyed[K]{k: k, kind: kind, s: s, i: iv}
		}
	})
	rot := singleBucket(*(*unsafe.Pointer)(unsafe.Pointer(&m)), n)
	if rot {
		// native order is slot order up to rotation: normalise so that the smallest key is first
		min := 0
		tie := false
		for i := 1; i < n; i++ {
			c := lessKey(ks[i].kind, ks[i].s, ks[i].i, ks[min].kind, ks[min].s, ks[min].i)
			if c < 0 {
				min, tie = i, false
			} else if c == 0 {
				tie = true
			}
		}
		if tie {
			p.unstable(site)
		}
		d := int(p.decide(site, n, true))
		start := (min + d) % n
		out := make([]K, 0, n)
		for i := 0; i < n; i++ {
			out = append(out, ks[(start+i)%n].k)
		}
		return out
	}
	tie := false
	sort.SliceStable(ks, func(a, b int) bool {
		c := lessKey(ks[a].kind, ks[a].s, ks[a].i, ks[b].kind, ks[b].s, ks[b].i)
		if c == 0 {
			tie = true
		}
		return c < 0
	})
	if tie {
		p.unstable(site)
	}
	d := p.decide(site, n, false)
	out := make([]K, n)
	for i := range ks {
		out[i] = ks[i].k
	}
	if d != 0 {
		r := NewRNG(uint64(d))
		for i := n - 1; i > 0; i-- {
			j := r.Intn(i + 1)
			out[i], out[j] = out[j], out[i]
		}
	}
	return out
}

var defaultCanonical = CanonicalPlan()

// ReflectKeys orders the result of reflect.Value.MapKeys() like MapKeys does (always in
// permutation mode: the slot order is not visible through reflection).
func ReflectKeys(keys []reflect.Value, site int) []reflect.Value {
	p := getPlan()
	if p == nil {
		if getCur() == nil {
			return keys
		}
		p = defaultCanonical
	}
	n := len(keys)
	if n < 2 {
		p.decide(site, n, false)
		return keys
	}
	type rk struct {
		v    reflect.Value
		kind int
		s    string
		i    int64
	}
	ks := make([]rk, n)
	quietly(func() {
		for i, k := range keys {
			var kind int
			var s string
			var iv int64
			if k.CanInterface() {
				kind, s, iv = sortKey(k.Interface())
			} else {
				kind, s = 0, fmt.Sprint(k)
			}
			ks[i] = rk{k, kind, s, iv}
		}
	})
	sort.SliceStable(ks, func(a, b int) bool {
		return lessKey(ks[a].kind, ks[a].s, ks[a].i, ks[b].kind, ks[b].s, ks[b].i) < 0
	})
	d := p.decide(site, n, false)
	out := make([]reflect.Value, n)
	for i := range ks {
		out[i] = ks[i].v
	}
	if d != 0 {
		r := NewRNG(uint64(d))
		for i := n - 1; i > 0; i-- {
			j := r.Intn(i + 1)
			out[i], out[j] = out[j], out[i]
		}
	}
	return out
}
