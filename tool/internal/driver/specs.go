package driver

import "time"

var realSoy = []string{"all library packages of robfig/soy (ast data errortypes parse parsepasses soyhtml soyjs soymsg soymsg/pomsg template and the root package), instrumented copy of the current working tree"}

// Specs returns the check specifications by property id.
func Specs() map[string]*Spec {
	m := map[string]*Spec{}
	m["C05"] = &Spec{
		ID: "C05", Level: "exploration", Main: "inst", Variants: []string{"inst"}, Block: 4,
		QuickWall: 4 * time.Minute, ThoroughWall: 20 * time.Minute, BlockWall: 15 * time.Minute,
		Nontrivial: "input",
		Rule: "every byte-prefix of every corpus item (testdata/*.soy and every string literal of the repository's *_test.go files; raw, wrapped in a template, and as a standalone expression) " +
			"is enumerated exhaustively; then seeded units of 100 inputs each (token deletions/duplications/swaps/splices of corpus items, sequences of up to N tags from the tag dictionary at file/template/nested level, " +
			"expression atom sequences, inputs pumped to 16-64KB, random bytes). Each input is parsed as the main task of a two-task simulation (scanner goroutine + parser) under one of four seeded schedules; " +
			"oracle: the call returns (no panic in either task), no deadlock, at most StepsPerByte*(len+64) simulated steps. An input counts as distinct and non-trivial by the hash of (entry point, input bytes); every input exchanges at least one token with the scanner task.",
		Assumptions: []string{
			"simulated time counts soy function entries, loop iterations and statements; time spent inside the standard library counts as one step per call",
			"scanner and parser exchange data only through the token channel (no shared variables), so schedules other than the sampled ones give the same tokens; a data race between them would be C09's to find",
			"the time bound constant is a harness constant fixed at >20x the worst measured ratio",
		},
		Components: map[string][]string{"real": realSoy, "stub": {}, "replaced": {"Go scheduler's choice between scanner and parser goroutine", "blocking on the token channel (modelled for enabledness; the real channel still carries the data)"}},
	}
	m["C18"] = &Spec{
		ID: "C18", Level: "exploration", Main: "inst", Variants: []string{"inst"}, Block: 4,
		QuickWall: 4 * time.Minute, ThoroughWall: 20 * time.Minute, BlockWall: 15 * time.Minute,
		Nontrivial: "history",
		Rule: "sequences of up to 200 parse calls (parse.SoyFile, parse.Expr, soy.ParseGlobals, Bundle.Compile) run inside one simulated process; after every call returns the scheduler runs all remaining tasks to quiescence and any task " +
			"that is alive and disabled for ever (blocked in a send nobody will receive) is a leak. Exhaustive part: every byte-prefix of every corpus item, in sequences of 200; seeded part: sequences mixing corpus prefixes, mutants, " +
			"inputs with trailing tokens after a complete expression, errors and trailing tokens inside quoted attribute expressions, runtime-error paths of the parser, globals files and multi-file compiles. " +
			"A history is distinct by the hash of its call list; every history spawns at least one scanner task.",
		Assumptions: []string{
			"a leak is a task disabled for ever in the simulator's channel model; blocking primitives other than channels and sync.Mutex/RWMutex/Once are not modelled",
			"sequences cut short by a C05 condition (budget, deadlock) are counted and left to C05",
		},
		Components: map[string][]string{"real": realSoy, "stub": {}, "replaced": {"Go scheduler's goroutine choice", "channel blocking (enabledness model)"}},
	}
	for _, f := range extraSpecs {
		f(m)
	}
	return m
}

var extraSpecs []func(map[string]*Spec)

func init() {
	extraSpecs = append(extraSpecs, func(m map[string]*Spec) {
		m["C12"] = &Spec{
			ID: "C12", Level: "fault_enumeration", Main: "plain", Variants: []string{"plain"}, Block: 2,
			QuickWall: 3 * time.Minute, ThoroughWall: 20 * time.Minute, BlockWall: 15 * time.Minute,
			Nontrivial: "case",
			Rule: "seeded generated bundles (1-4 files x 1-5 templates, all commands, directive chains, calls with data=all/data=$m/content params, msg with placeholders, html tags and plurals, globals, $ij, autoescape modes), " +
				"each rendered per entry template and data set through a recording writer; then, exhaustively per case, one run for every write call index k of the fault-free run in three modes (sticky: calls >= k fail; transient: only call k fails; " +
				"partial: call k accepts half its bytes and fails) and one run for every byte capacity b in 0..|output| (all b when |output| <= 1024, else all call boundaries +-1 and a seeded sample). " +
				"Oracle: a failed write implies a non-nil error; bytes accepted up to the first failure are a prefix of the fault-free output; nil implies the whole output was accepted. " +
				"A case is distinct by (bundle skeleton, entry template, data set, catalogue) and non-trivial if its fault-free run makes at least two write calls.",
			Assumptions: []string{
				"the fault-free run of the same compiled bundle is the reference output (rendering is deterministic for the generated subset: no randomInt, no keys())",
				"runs the plain, un-instrumented build: the writer seam is part of soy's API and needs no scheduler",
			},
			Components: map[string][]string{"real": {"all of robfig/soy, unmodified build of the current working tree"}, "stub": {"io.Writer (fault-injecting, recording)", "soymsg.Bundle (identity / reversed / partial catalogue built from the compiled messages)"}, "replaced": {}},
			RequireProbes: []string{"fault_landed_on_entity", "fault_landed_on_escaper-chunk", "fault_landed_on_rawtext", "fault_landed_on_value", "fault_fired_sticky", "fault_fired_transient", "fault_fired_partial", "fault_fired_capacity",
				"fault_fired_with_catalogue", "bundle_has_css", "bundle_has_msg", "bundle_has_literal", "bundle_has_sp", "bundle_has_letc", "bundle_has_log", "bundle_has_param-content", "bundle_has_call"},
		}
	})
}

func init() {
	extraSpecs = append(extraSpecs, func(m map[string]*Spec) {
		m["C08"] = &Spec{
			ID: "C08", Level: "exploration", Main: "plain", Also: []string{"inst"}, Variants: []string{"plain", "inst"}, Block: 2,
			QuickWall: 3 * time.Minute, ThoroughWall: 20 * time.Minute, BlockWall: 15 * time.Minute,
			Nontrivial: "history",
			Rule: "seeded histories of 2..8 (quick) / 2..40 (thorough) operations over ONE compiled generated bundle, one set of data maps, $ij maps and message catalogues, all reused for the whole history. Operations: render; render through a reused Renderer value; " +
				"render into a writer failing at write k; render in which the vfail function/directive panics at its n-th invocation (error, string, runtime.Error or struct value); render with ill-typed data; soyjs.Write (ES5/ES6, with/without catalogue); Generator.WriteFile; " +
				"parse.Expr+EvalExpr; re-compiling the same soy.Bundle. Swarm configuration per history: 0, 1 or 2 obligatory print directives, catalogue kind. Reference model: the same render as the first operation on a freshly compiled bundle with pristine data (memoised). " +
				"Invariants after every operation: un-faulted renders are byte-identical to the model and agree on error presence; faulted renders wrote a prefix of the model output; the structural digest (reflection over exported and unexported fields, pointer-identity aware) of data maps, $ij, catalogues, " +
				"the whole template.Registry with every AST node, the soy.Bundle and the process-wide registries is unchanged. The same histories run on the plain build and on the instrumented build (under the step clock). A history is distinct by the hash of (bundle skeleton, operation list).",
			Assumptions: []string{
				"error text is not compared (it embeds stack traces); only presence",
				"JS generation is an operation in the history, its own bytes are C13's subject",
				"randomInt and keys() are excluded from generated bundles",
			},
			Components: map[string][]string{"real": {"all of robfig/soy: unmodified build and instrumented build of the current working tree"}, "stub": {"io.Writer (fault-injecting)", "soymsg.Bundle (built from the compiled messages)", "vfail function / directive (panics on schedule)"}, "replaced": {}},
			RequireProbes: []string{"op_render", "op_render-reused", "op_render-writerfault", "op_render-panic", "op_render-illtyped", "op_js", "op_genfile", "op_recompile", "fault_fired_writer", "fault_fired_panic_error", "fault_fired_panic_runtime-error",
				"histories_with_obligatory_directives", "failed_renders"},
		}
	})
}

func init() {
	extraSpecs = append(extraSpecs, func(m map[string]*Spec) {
		m["C06"] = &Spec{
			ID: "C06", Level: "fault_enumeration", Main: "inst", Variants: []string{"inst"}, Block: 2,
			QuickWall: 4 * time.Minute, ThoroughWall: 20 * time.Minute, BlockWall: 15 * time.Minute,
			Nontrivial: "case",
			Rule: "seeded generated bundles in valid mode and in chaos mode (1-4 typing-discipline-breaking mutations: ill-typed / out-of-range / wrong-arity expressions and directives, non-positive range steps, a template name defined again in a second shorter file, " +
				"failing prints inside callees, plural on non-integers, data of arbitrary JSON shape with missing params). For every entry: a fault-free reference run under the simulator's step clock records every invocation of the vfail function/directive, every write and every catalogue lookup; " +
				"then one run per fault point: a panic of each of four kinds (error, string, runtime.Error, struct) at the n-th invocation, a writer error (sticky and transient) at the k-th write, each misbehaving catalogue (unknown placeholder, plural part for a plain message, " +
				"plural case out of range / negative) from the start and from the m-th lookup on; through Tofu.Render, Renderer.Execute with and without Inject / WithMessages. Plus soyhtml.EvalExpr(parse.Expr(e)) for the case's expressions and chaos expressions, " +
				"and soy.ParseGlobals of a generated globals file through a reader with short reads, an error (with and without data) and an early EOF at every byte offset. Oracle: the call returns - no panic escapes, the step budget is not exhausted, no deadlock. " +
				"A case is distinct by (bundle skeleton, chaos mutations); fault points are enumerated exhaustively per case (write indices sampled beyond 120 calls).",
			Assumptions: []string{
				"the oracle does not require an injected fault to yield an error, only that nothing escapes, hangs or blocks",
				"the all-compilable-bundles and all-data-shapes part of the quantifier is sampled by the generator; the fault dimension is enumerated",
				"step budget is a harness constant far above the measured need of legitimate generated workloads (max_steps_fault_free)",
			},
			Components: map[string][]string{"real": realSoy, "stub": {"io.Writer", "io.Reader", "soymsg.Bundle", "vfail function and directive"}, "replaced": {"wall-clock time (step clock)"}},
			RequireProbes: []string{"fault_fired_panic-error", "fault_fired_panic-string", "fault_fired_panic-runtime-error", "fault_fired_panic-struct", "fault_fired_write", "fault_fired_read",
				"fault_fired_bundle-unknown-placeholder", "fault_fired_bundle-plural-for-plain", "fault_fired_bundle-plural-case-high", "fault_fired_bundle-plural-case-negative",
				"chaos_duplicate-template", "chaos_for-step", "chaos_expr:print", "chaos_directive", "chaos_data", "api_render", "api_execute", "api_execute-noij", "evalexpr", "globals_parses"},
			Post: func(e *Env, s *Spec, agg *Agg, cov map[string]interface{}) error {
				v, d := agg.Counters["valid_cases"], agg.Counters["valid_discards"]
				if v > 50 && d*50 > v {
					return troublef("generator discards in valid mode above 2%% (%d of %d): generator defect", d, v)
				}
				return nil
			},
		}
	})
}
