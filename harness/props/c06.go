package props

import (
	"encoding/json"
	"fmt"
	"runtime/debug"
	"strings"

	"github.com/robfig/soy"
	"github.com/robfig/soy/data"
	"github.com/robfig/soy/parse"
	"github.com/robfig/soy/soyhtml"
	"github.com/robfig/soy/soymsg"
	"verif/harness/internal/faults"
	"verif/harness/internal/gen"
	"verif/harness/internal/pparse"
	"verif/harness/internal/sut"
	"verif/harness/internal/wk"
	"verif/simrt"
)

// C06Budget is the step budget of one render / evaluation / globals parse.  Legitimate
// generated workloads stay far below it (evidence key max_steps_fault_free); an unbounded loop
// exhausts it in milliseconds without first exhausting memory.
const C06Budget = 3_000_000

type c06Fault struct {
	Kind   string `json:"kind"` // none | panic | write | bundle
	N      int    `json:"n,omitempty"`
	PK     int    `json:"pk,omitempty"`
	BK     int    `json:"bk,omitempty"`
	Sticky bool   `json:"sticky,omitempty"`
	Nil    bool   `json:"typed_nil,omitempty"` // the writer's error is a typed-nil pointer
}

type c06Reader struct {
	Chunk    int  `json:"chunk"`
	FailAt   int  `json:"fail_at"`
	WithData bool `json:"with_data,omitempty"`
	EOFAt    int  `json:"eof_at"`
	StallAt  int  `json:"stall_at,omitempty"`
}

// c06Case is one execution (and the replay case) of C06.
type c06Case struct {
	What       string     `json:"what"` // render | evalexpr | globals
	Bundle     *gen.Case  `json:"bundle,omitempty"`
	Obligatory []string   `json:"obligatory,omitempty"`
	Entry      gen.Entry  `json:"entry"`
	API        string     `json:"api,omitempty"` // render | execute | execute-noij
	Cat        int        `json:"cat"`
	Fault      c06Fault   `json:"fault"`
	Expr       string     `json:"expr,omitempty"`
	Globals    string     `json:"globals,omitempty"`
	Reader     *c06Reader `json:"reader,omitempty"`
	Shrink     []string   `json:"shrink_strings,omitempty"`
	NsPerStep  int64      `json:"ns_per_step,omitempty"` // speed of the simulated machine (0 = default)
}

type c06Obs struct {
	vfailCalls, writes, msgCalls int
	fired                        string
	err                          bool
	steps                        int64
}

func goValue(d gen.DVal) interface{} {
	switch d.T {
	case "bool":
		return d.B
	case "int":
		return d.I
	case "float":
		return d.F
	case "str":
		return d.S
	case "list":
		l := make([]interface{}, len(d.L))
		for i, x := range d.L {
			l[i] = goValue(x)
		}
		return l
	case "map":
		m := map[string]interface{}{}
		for _, kv := range d.M {
			m[kv.K] = goValue(kv.V)
		}
		return m
	case "undef":
		return data.Undefined{}
	}
	return nil
}

// c06Exec executes one case under the simulator and applies the oracle: the call returns.
func c06Exec(cs *c06Case, cc *sut.Compiled) (*wk.Failure, c06Obs) {
	var obs c06Obs
	var escVal, escSite string
	body := func() {
		defer func() {
			if r := recover(); r != nil {
				if simrt.IsAbort(r) {
					panic(r)
				}
				escVal = fmt.Sprint(r)
				escSite = pparse.SoySite(string(debug.Stack()))
			}
		}()
		switch cs.What {
		case "render":
			e := cs.Entry
			w := faults.NewWriter()
			var cat soymsg.Bundle
			var stub *faults.Bundle
			if cs.Cat >= 0 {
				stub = faults.NewBundle(faults.BundleKind(cs.Cat), cc.Msgs)
				cat = stub
			}
			sut.Injector = &faults.Injector{}
			switch cs.Fault.Kind {
			case "panic":
				sut.Injector.At, sut.Injector.Kind = cs.Fault.N, faults.PanicKind(cs.Fault.PK)
			case "write":
				w.FailCall, w.Sticky, w.TypedNil = cs.Fault.N, cs.Fault.Sticky, cs.Fault.Nil
			case "bundle":
				stub = faults.NewBundle(faults.BundleKind(cs.Fault.BK), cc.Msgs)
				stub.From = cs.Fault.N
				cat = stub
			}
			d := cs.Bundle.Data[e.Data]
			var err error
			switch cs.API {
			case "render":
				err = cc.Tofu.Render(w, e.Template, goValue(d))
			case "execute-noij":
				rd := cc.Tofu.NewRenderer(e.Template)
				if cat != nil {
					rd.WithMessages(cat)
				}
				err = rd.Execute(w, d.Map())
			default:
				rd := cc.Tofu.NewRenderer(e.Template).Inject(cs.Bundle.IJ[e.IJ].Map())
				if cat != nil {
					rd.WithMessages(cat)
				}
				err = rd.Execute(w, d.Map())
			}
			obs.err = err != nil
			obs.vfailCalls = sut.Injector.Calls
			obs.writes = w.Calls
			if stub != nil {
				obs.msgCalls = stub.MsgCalls
			}
			switch {
			case sut.Injector.Fired:
				obs.fired = "panic-" + faults.PanicKind(cs.Fault.PK).String()
			case w.Failed > 0:
				obs.fired = "write"
			case stub != nil && cs.Fault.Kind == "bundle" && stub.Misbehaved > 0:
				obs.fired = "bundle-" + faults.BundleKind(cs.Fault.BK).String()
			}
			sut.Injector = nil
		case "evalexpr":
			node, err := parse.Expr(cs.Expr)
			if err != nil {
				obs.err = true
				return
			}
			_, err = soyhtml.EvalExpr(node)
			obs.err = err != nil
		case "globals":
			rd := &faults.Reader{Data: []byte(cs.Globals), Chunk: cs.Reader.Chunk, FailAt: cs.Reader.FailAt, WithData: cs.Reader.WithData, EOFAt: cs.Reader.EOFAt, StallAt: cs.Reader.StallAt}
			_, err := soy.ParseGlobals(rd)
			obs.err = err != nil
			if rd.Fired {
				obs.fired = "read"
			}
		}
	}
	res := simrt.Run(simrt.Config{Budget: C06Budget, NsPerStep: cs.NsPerStep}, body)
	obs.steps = res.Steps
	mk := func(class, site, detail string) *wk.Failure {
		b, _ := json.Marshal(cs)
		return &wk.Failure{Class: class, Site: site, Detail: detail, Replay: b}
	}
	what := cs.What
	if cs.What == "render" {
		what = fmt.Sprintf("%s of %s (api %s, fault %+v)", cs.What, cs.Entry.Template, cs.API, cs.Fault)
	} else if cs.What == "evalexpr" {
		what = fmt.Sprintf("EvalExpr(%q)", cs.Expr)
	} else {
		what = fmt.Sprintf("ParseGlobals(%q) with reader %+v", trunc(cs.Globals, 80), *cs.Reader)
	}
	switch {
	case res.Budget:
		return mk("budget", SiteName(res.AbortSite), fmt.Sprintf("%s did not return within %d simulated steps: a loop runs unboundedly on finite data (at %s)", what, C06Budget, SiteName(res.AbortSite))), obs
	case res.Deadlock:
		var bl []string
		for _, b := range res.Blocked {
			bl = append(bl, fmt.Sprintf("%s blocked in %s at %s", b.Name, b.BlockOp, SiteName(b.BlockSite)))
		}
		return mk("deadlock", strings.Join(bl, "; "), what+" blocked for ever: "+strings.Join(bl, "; ")), obs
	case escVal != "":
		return mk("panic", escSite, fmt.Sprintf("%s: a Go panic escaped to the caller: %s", what, trunc(escVal, 300))), obs
	case res.MainPanic != nil:
		return mk("panic", pparse.SoySite(res.MainPanic.Stack), what+": panic: "+trunc(res.MainPanic.Value, 300)), obs
	case len(res.TaskPanics) > 0:
		return mk("scanner-panic", pparse.SoySite(res.TaskPanics[0].Stack), what+": panic in a goroutine started by soy: "+trunc(res.TaskPanics[0].Value, 300)), obs
	}
	return nil, obs
}

func c06Opts() gen.Opts {
	o := gen.DefaultOpts()
	o.Directives = []string{"|vfail", "|vq"}
	o.Funcs = []string{"vfail"}
	o.NoOrderFuncs = false
	o.SameFileNames = true
	return o
}

// globals files: the line grammar of soy.ParseGlobals is "<name> = <primitive literal>", with
// comments and blank lines skipped.  The generator draws every part of a line from a table that
// mixes ordinary and odd shapes (names with empty, dotted, doubled-dot or non-ASCII components,
// separators with and without spaces, values of every literal kind and a few non-literals), and
// then applies a few byte-level edits to the whole file.
var (
	globalNameParts = []string{"a", "A_1", "app", "VERSION", "x9", "\u00e9t\u00e9", "9x", "x y", "-", "$a", "", "", "_"}
	globalSeps      = []string{" = ", " = ", " = ", "=", " =", "= ", " == ", " = = ", "\t=\t", ":", " ", ""}
	globalValues    = []string{"1", "-7", "0x1F", "1.5", "1e3", "true", "false", "null", "'s'", "'it\\'s'", "'\\u00e9'", "'unterminated", "\"dq\"", "[1, 2, 'x']", "['a': 1]", "[]", "[:]",
		"1 2 3", "$x", "A_1", "app.VERSION", "1 +", "", " ", "'a' + 'b'", "'it\\'s' // note", "'a' // b 'c", "\"x\" // 'y", "'a // b'", "1 // it's", "'x' /* c */", "'\\'' // '", "'a'//", "// 'q", "not true", "-", "9999999999999999999999", "'\\'", "// c", "1 // c", "{", "}", "{$x}"}
	globalJunk = []string{"", "\n", "// comment\n", "/* block */\n", "   \n", "\t\n", "no equals here\n", "=\n", " = \n", "= 1\n", "#!shebang\n", "\r\n", "\x00\n", "\xff\xfe\n"}
)

func globalName(r *simrt.RNG) string {
	n := 1 + r.Intn(3)
	if r.Intn(6) == 0 {
		n = 4 + r.Intn(3)
	}
	parts := make([]string, n)
	for i := range parts {
		parts[i] = globalNameParts[r.Intn(len(globalNameParts))]
	}
	name := strings.Join(parts, ".")
	if r.Intn(40) == 0 {
		name = strings.Repeat(name+".", 300)
	}
	return name
}

func globalsText(r *simrt.RNG, gc *gen.Case) string {
	var sb strings.Builder
	sb.WriteString("// generated globals\n\n")
	for _, kv := range gc.Globals {
		fmt.Fprintf(&sb, "%s = %s\n", kv.K, kv.V.Literal())
	}
	// names that several lines define and refer to: chains, self-references and cycles between globals
	refNames := []string{"A", "B", "app.C", "A", "B"}
	for i, n := 0, r.Intn(6); i < n; i++ {
		switch r.Intn(9) {
		case 8:
			a, b := refNames[r.Intn(len(refNames))], refNames[r.Intn(len(refNames))]
			fmt.Fprintf(&sb, "%s = %s\n", a, []string{b, b + " + 1", "[" + b + "]", "['k': " + b + "]", "not " + b}[r.Intn(5)])
		case 0:
			fmt.Fprintf(&sb, "X%d = %s\n", i, gen.ChaosExprs[r.Intn(len(gen.ChaosExprs))])
		case 1:
			sb.WriteString(globalJunk[r.Intn(len(globalJunk))])
		case 2:
			fmt.Fprintf(&sb, "  Z%d   =   [1, 2, 'x']  \n", i)
		default:
			eol := "\n"
			if r.Intn(8) == 0 {
				eol = []string{"\r\n", "", "\n\n", " \n"}[r.Intn(4)]
			}
			sb.WriteString(globalName(r) + globalSeps[r.Intn(len(globalSeps))] + globalValues[r.Intn(len(globalValues))] + eol)
		}
	}
	g := sb.String()
	// byte-level edits
	for k, n := 0, r.Intn(3); k < n && len(g) > 0; k++ {
		i := r.Intn(len(g))
		switch r.Intn(4) {
		case 0:
			g = g[:i] + g[i+1:]
		case 1:
			g = g[:i] + string(g[i]) + g[i:]
		case 2:
			g = g[:i] + string([]byte{byte(r.Intn(256))}) + g[i:]
		default:
			g = g[:i] // no final newline, or cut in the middle of a line
		}
	}
	return g
}

// C06 is the worker entry point for property C06.
func C06(c *wk.Ctx) {
	LoadSites(c.Sites)
	sut.InstallExtensions()
	if c.Mode == "replay" {
		var cs c06Case
		readReplay(c, &cs)
		u := wk.NewUnit(0)
		var cc *sut.Compiled
		if cs.What == "render" {
			sut.SetObligatory(cs.Obligatory)
			var err error
			if cs.Bundle != nil {
				cc, err = sut.CompileInSim(cs.Bundle)
			}
			if cs.Bundle == nil || err != nil || cs.Entry.Data >= len(cs.Bundle.Data) || cs.Entry.IJ >= len(cs.Bundle.IJ) || cs.Cat >= int(faults.NumBundleKinds) {
				u.AddFail(&wk.Failure{Class: "invalid-case", Detail: fmt.Sprint(err)})
				c.Emit(u)
				return
			}
		}
		if cs.What == "globals" && cs.Reader == nil {
			cs.Reader = &c06Reader{FailAt: -1, EOFAt: -1}
		}
		f, obs := c06Exec(&cs, cc)
		u.Evals, u.Steps = 1, obs.steps
		u.AddFail(f)
		c.Emit(u)
		return
	}
	units, perUnit := 600, 4
	if c.Tier == "thorough" {
		units = 30000
	}
	if c.Mode == "plan" {
		c.Emit(map[string]interface{}{"ev": "plan", "units": units, "cases_per_unit": perUnit})
		return
	}
	for run := c.Start; run < c.Start+c.Count && run < units; run++ {
		c.Begin(run)
		u := wk.NewUnit(run)
		r := simrt.NewRNG(c.UnitSeed(run, 6))
		var digest uint64
		exec := func(cs *c06Case, cc *sut.Compiled) c06Obs {
			f, obs := c06Exec(cs, cc)
			digest = digest*1099511628211 ^ uint64(obs.steps)<<1 ^ wk.FNV(fmt.Sprint(obs.err, obs.fired, obs.writes, obs.vfailCalls))
			u.Evals++
			u.Steps += obs.steps
			if obs.fired != "" {
				u.Counters["fault_fired_"+obs.fired]++
			} else if cs.Fault.Kind != "none" && cs.Fault.Kind != "" {
				u.Counters["fault_not_fired_"+cs.Fault.Kind]++
			}
			if obs.err {
				u.Counters["returned_error"]++
			} else if f == nil {
				u.Counters["returned_ok"]++
			}
			u.AddFail(f)
			return obs
		}
		for ci := 0; ci < perUnit; ci++ {
			o06 := c06Opts()
			o06.Focus = gen.FocusFor(c.UnitSeed(run, uint64(300+ci)))
			gc := gen.Generate(c.UnitSeed(run, uint64(300+ci)), o06)
			chaos := r.Intn(2) == 0
			var chaosLog []string
			if chaos {
				chaosLog = gen.Chaos(c.UnitSeed(run, uint64(400+ci)), gc, 1+r.Intn(4))
			}
			var oblig []string
			if r.Intn(4) == 0 {
				oblig = []string{"vbang"}
			}
			sut.SetObligatory(oblig)
			cc, err := sut.CompileInSim(gc)
			if chaos {
				u.Counters["chaos_cases"]++
				for _, l := range chaosLog {
					u.Counters["chaos_"+l]++
				}
			} else {
				u.Counters["valid_cases"]++
			}
			if err != nil {
				if chaos {
					u.Counters["chaos_discards_compile_error"]++
				} else {
					u.Counters["valid_discards"]++
				}
			} else {
				u.Hash("case", wk.FNV(gc.Skeleton()+fmt.Sprint(chaos, chaosLog)))
				entries := gc.Entries
				for len(entries) > 3 {
					i := r.Intn(len(entries))
					entries = append(entries[:i:i], entries[i+1:]...)
				}
				for _, e := range entries {
					if e.Data >= len(gc.Data) {
						continue
					}
					base := c06Case{What: "render", Bundle: gc, Obligatory: oblig, Entry: e, Cat: -1, API: []string{"execute", "execute", "render", "execute-noij"}[r.Intn(4)], NsPerStep: simrt.SpeedFor(r.Uint64())}
					if r.Intn(2) == 0 && base.API != "render" {
						base.Cat = r.Intn(3)
					}
					base.Fault = c06Fault{Kind: "none"}
					ref := exec(&base, cc)
					u.MaxCounter("max_steps_fault_free", ref.steps)
					u.Counters["api_"+base.API]++
					if len(u.Samples) < 1 {
						u.Sample(1, map[string]interface{}{"template": e.Template, "chaos": chaosLog, "api": base.API, "vfail_calls": ref.vfailCalls, "writes": ref.writes, "msg_calls": ref.msgCalls,
							"source": trunc(gc.Files[0].Source(), 300)})
					}
					// one run per fault point of the fault-free run
					for n := 1; n <= ref.vfailCalls && n <= 40; n++ {
						for pk := 0; pk < int(faults.NumPanicKinds); pk++ {
							cs := base
							cs.Fault = c06Fault{Kind: "panic", N: n, PK: pk}
							exec(&cs, cc)
						}
					}
					step := 1
					if ref.writes > 120 {
						step = ref.writes / 120
					}
					for k := 1; k <= ref.writes; k += step {
						for _, sticky := range []bool{true, false} {
							cs := base
							cs.Fault = c06Fault{Kind: "write", N: k, Sticky: sticky}
							exec(&cs, cc)
						}
						tn := base
						tn.Fault = c06Fault{Kind: "write", N: k, Sticky: true, Nil: true}
						exec(&tn, cc)
					}
					if len(cc.Msgs) > 0 && base.API != "render" {
						for bk := int(faults.BundleUnknownPlaceholder); bk < int(faults.NumBundleKinds); bk++ {
							// the misbehaving catalogue from the start, and from every later lookup on
							b0 := base
							b0.Cat = -1
							b0.Fault = c06Fault{Kind: "bundle", BK: bk, N: 0}
							o := exec(&b0, cc)
							for m := 2; m <= o.msgCalls && m <= 12; m++ {
								cs := b0
								cs.Fault.N = m
								exec(&cs, cc)
							}
						}
					}
				}
			}
			// standalone expression evaluation, including failing expressions
			exprs := gc.Exprs()
			for len(exprs) > 10 {
				i := r.Intn(len(exprs))
				exprs = append(exprs[:i:i], exprs[i+1:]...)
			}
			for i := 0; i < 4; i++ {
				exprs = append(exprs, gen.ChaosExprs[r.Intn(len(gen.ChaosExprs))])
			}
			for _, e := range exprs {
				cs := c06Case{What: "evalexpr", Expr: e, Cat: -1, Shrink: []string{"expr"}, NsPerStep: simrt.SpeedFor(r.Uint64())}
				exec(&cs, nil)
				u.Counters["evalexpr"]++
			}
			// globals files through a fault-injecting reader
			g := globalsText(r, gc)
			if r.Intn(10) == 0 {
				g += "LONG = '" + strings.Repeat("x", 70000) + "'\n"
			}
			readers := []c06Reader{{Chunk: 0, FailAt: -1, EOFAt: -1}, {Chunk: 1, FailAt: -1, EOFAt: -1}, {Chunk: 7, FailAt: -1, EOFAt: -1}}
			stepG := 1
			if len(g) > 150 {
				stepG = len(g) / 150
			}
			for off := 0; off <= len(g) && off < 5000; off += stepG {
				readers = append(readers, c06Reader{Chunk: 5, FailAt: off, EOFAt: -1}, c06Reader{Chunk: 0, FailAt: off, WithData: true, EOFAt: -1}, c06Reader{Chunk: 3, FailAt: -1, EOFAt: off},
					c06Reader{Chunk: 4, FailAt: -1, EOFAt: -1, StallAt: off + 1})
			}
			for i := range readers {
				cs := c06Case{What: "globals", Globals: g, Reader: &readers[i], Cat: -1, Shrink: []string{"globals"}, NsPerStep: simrt.SpeedFor(uint64(i) + 77)}
				exec(&cs, nil)
				u.Counters["globals_parses"]++
			}
		}
		u.Observe("digest", fmt.Sprintf("%016x", digest))
		c.Emit(u)
	}
}
