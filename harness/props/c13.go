package props

import (
	"bytes"
	"encoding/json"
	"errors"
	"fmt"
	"github.com/robfig/soy/template"
	"sort"
	"strings"

	"github.com/robfig/soy/ast"
	"github.com/robfig/soy/soyjs"
	"github.com/robfig/soy/soymsg"
	"verif/harness/internal/faults"
	"verif/harness/internal/gen"
	"verif/harness/internal/sut"
	"verif/harness/internal/wk"
	"verif/simrt"
)

// msgObs is what C10/C13 observe of one msg node.
type msgObs struct {
	Key   string   `json:"key"` // file|template|ordinal
	ID    uint64   `json:"id"`
	Names []string `json:"names"`
	PH    string   `json:"ph"`
}

// vector is the observation of one compilation (DESIGN.md 4, C13).
type vector struct {
	Accept  bool              `json:"accept"`
	Err     string            `json:"err,omitempty"`
	Msgs    []msgObs          `json:"msgs,omitempty"`
	Renders map[string]string `json:"renders,omitempty"` // template|data -> "E" or output
	JS      map[string]string `json:"js,omitempty"`      // file|fmt|cat -> generated text or "E:<err>"
	Again   string            `json:"again,omitempty"`   // how a second Compile of the same Bundle differed from the first ("" = same decision, same error text)
	Trouble string            `json:"-"`
}

func phNames(n ast.Node, out *[]string) {
	switch x := n.(type) {
	case *ast.MsgPlaceholderNode:
		*out = append(*out, x.Name)
		return
	case *ast.MsgPluralNode:
		*out = append(*out, "plural:"+x.VarName)
		for _, c := range x.Cases {
			phNames(c.Body, out)
		}
		phNames(x.Default, out)
		return
	}
	if p, ok := n.(ast.ParentNode); ok {
		for _, c := range p.Children() {
			if c != nil {
				phNames(c, out)
			}
		}
	}
}

func observeMsgs(cc *sut.Compiled) []msgObs {
	var out []msgObs
	fileOf := map[string]string{}
	for _, f := range cc.Reg.SoyFiles {
		for _, n := range f.Body {
			if t, ok := n.(*ast.TemplateNode); ok {
				fileOf[t.Name] = f.Name
			}
		}
	}
	for _, t := range cc.Reg.Templates {
		ord := 0
		faults.WalkMsgs(t.Node, func(m *ast.MsgNode) {
			o := msgObs{Key: fmt.Sprintf("%s|%s|%d", fileOf[t.Node.Name], t.Node.Name, ord), ID: m.ID}
			phNames(m.Body, &o.Names)
			func() {
				defer func() {
					if r := recover(); r != nil {
						o.PH = fmt.Sprint("panic: ", r)
					}
				}()
				o.PH = soymsg.PlaceholderString(m)
			}()
			out = append(out, o)
			ord++
		})
	}
	sort.Slice(out, func(i, j int) bool { return out[i].Key < out[j].Key })
	return out
}

type obsOpts struct {
	order   []int
	renders int // max entries rendered
	js      bool
	catKind int
}

// observeCase compiles the case in the given file order and observes the vector.  It must be
// called inside a simulation when the binary is instrumented.
func observeCase(c *gen.Case, o obsOpts) vector {
	var v vector
	cc, bundle, err := sut.CompileBundle(c, o.order)
	// the same Bundle compiled a second time must decide the same and say the same
	if cc2, err2 := bundle.Compile(); (err == nil) != (err2 == nil) || (err != nil && err.Error() != err2.Error()) {
		v.Again = fmt.Sprintf("first Compile: %v; second Compile of the same Bundle: %v", err, err2)
	} else if err == nil && len(cc2.Templates) != len(cc.Reg.Templates) {
		v.Again = fmt.Sprintf("first Compile: %d templates; second Compile of the same Bundle: %d", len(cc.Reg.Templates), len(cc2.Templates))
	}
	if v.Again == "" && c.GlobalsSplit {
		// the application builds a second Bundle from the same sources and the same globals maps
		_, _, err3 := sut.CompileBundle(c, o.order)
		if (err == nil) != (err3 == nil) || (err != nil && err.Error() != err3.Error()) {
			v.Again = fmt.Sprintf("first Bundle: %v; a second Bundle built from the same files and the same globals maps: %v", err, err3)
		}
	}
	if v.Again == "" && err == nil {
		// a parse pass added after a compilation takes part in the next one (a fresh bundle with the
		// same pass rejects: the pass rejects everything)
		bundle.AddParsePass(func(template.Registry) error {
			return errors.New("rejected by the pass added after the first compilation")
		})
		if _, err4 := bundle.Compile(); err4 == nil || !strings.Contains(err4.Error(), "rejected by the pass") {
			v.Again = fmt.Sprintf("Compile, AddParsePass(a pass that rejects), Compile: the second compilation returned %v", err4)
		}
	}
	sut.Cleanup()
	if err != nil {
		v.Err = err.Error()
		return v
	}
	v.Accept = true
	v.Msgs = observeMsgs(cc)
	v.Renders = map[string]string{}
	n := 0
	for _, e := range c.Entries {
		if n >= o.renders || e.Data >= len(c.Data) || e.IJ >= len(c.IJ) {
			break
		}
		n++
		var buf bytes.Buffer
		rerr, esc := cc.Render(&buf, e.Template, c.Data[e.Data].Map(), c.IJ[e.IJ].Map(), nil)
		k := fmt.Sprintf("%s|%d", e.Template, e.Data)
		switch {
		case esc != nil:
			v.Renders[k] = "PANIC"
		case rerr != nil:
			v.Renders[k] = "E:" + buf.String()
		default:
			v.Renders[k] = buf.String()
		}
	}
	if o.js {
		// one Generator asked for every file, and then for every file again: same bytes both times
		g := soyjs.NewGenerator(cc.Reg)
		first := map[string]string{}
		for round := 0; round < 2 && v.Again == ""; round++ {
			for _, f := range cc.Reg.SoyFiles {
				var buf bytes.Buffer
				var werr error
				func() {
					defer func() {
						if r := recover(); r != nil {
							werr = fmt.Errorf("panic: %v", r)
						}
					}()
					werr = g.WriteFile(&buf, f.Name)
				}()
				k := f.Name + "#" + firstTemplate(f)
				out := buf.String()
				if werr != nil {
					out = "E:" + werr.Error()
				}
				if round == 0 {
					first[k] = out
				} else if first[k] != out {
					v.Again = "Generator.WriteFile of " + k + " gives other bytes the second time: " + firstDiff(first[k], out)
				}
			}
		}
		v.JS = map[string]string{}
		cat := faults.NewBundle(faults.BundleKind(o.catKind%3), cc.Msgs)
		for i, f := range cc.Reg.SoyFiles {
			for _, es6 := range []bool{false, true} {
				for _, withCat := range []bool{false, true} {
					var b soymsg.Bundle
					if withCat {
						b = cat
					}
					var buf bytes.Buffer
					jerr, esc := cc.WriteJS(&buf, i, es6, b)
					k := fmt.Sprintf("%s#%s|es6=%v|cat=%v", f.Name, firstTemplate(f), es6, withCat)
					switch {
					case esc != nil:
						v.JS[k] = "PANIC:" + esc.Value
					case jerr != nil:
						v.JS[k] = "E:" + jerr.Error()
					default:
						v.JS[k] = buf.String()
					}
				}
			}
		}
	}
	return v
}

// firstTemplate names the first template of a file (file names need not be unique in a bundle).
func firstTemplate(f *ast.SoyFileNode) string {
	for _, n := range f.Body {
		if t, ok := n.(*ast.TemplateNode); ok {
			return t.Name
		}
	}
	return ""
}

// inSim runs f as a simulation (instrumented builds must not start goroutines outside one).
func inSim(f func()) *simrt.Result {
	cfg := simrt.Config{Budget: 2_000_000_000}
	if c13SchedSeed != 0 {
		// whatever goroutines the compilation starts (the scanners; a change may add workers) are
		// interleaved by a seeded schedule instead of the default run-until-blocked one
		cfg.Chooser = simrt.NewRandomChooser(c13SchedSeed, 3)
	}
	return simrt.Run(cfg, f)
}

// c13SchedSeed, if non-zero, seeds the goroutine schedule of the observations.
var c13SchedSeed uint64

// observeUnder observes under a map-order plan (nil = default).
func observeUnder(c *gen.Case, o obsOpts, plan *simrt.MapPlan) (vector, *simrt.Result) {
	var v vector
	old := simrt.SetMapPlan(plan)
	res := inSim(func() { v = observeCase(c, o) })
	simrt.SetMapPlan(old)
	if res.Budget || res.Deadlock || res.MainPanic != nil {
		v.Trouble = fmt.Sprintf("observation did not finish normally (budget=%v deadlock=%v panic=%v)", res.Budget, res.Deadlock, res.MainPanic != nil)
	}
	return v, res
}

func firstDiff(a, b string) string {
	n := len(a)
	if len(b) < n {
		n = len(b)
	}
	i := 0
	for i < n && a[i] == b[i] {
		i++
	}
	lo := i - 60
	if lo < 0 {
		lo = 0
	}
	ha, hb := i+80, i+80
	if ha > len(a) {
		ha = len(a)
	}
	if hb > len(b) {
		hb = len(b)
	}
	return fmt.Sprintf("at byte %d: %q vs %q", i, a[lo:ha], b[lo:hb])
}

// diffVectors names the first component in which two observations differ ("" if equal).
// sameOrder: both observations used the same file insertion order (error text must then be equal).
func diffVectors(a, b vector, sameOrder bool) (string, string) {
	if a.Again != "" {
		return "repeated compilation", a.Again
	}
	if b.Again != "" {
		return "repeated compilation", b.Again
	}
	if a.Accept != b.Accept {
		return "accept/reject decision", fmt.Sprintf("accepted=%v (%s) vs accepted=%v (%s)", a.Accept, trunc(a.Err, 200), b.Accept, trunc(b.Err, 200))
	}
	if !a.Accept {
		if sameOrder && a.Err != b.Err {
			return "compile error text", firstDiff(a.Err, b.Err)
		}
		return "", ""
	}
	if len(a.Msgs) != len(b.Msgs) {
		return "message set", fmt.Sprintf("%d vs %d messages", len(a.Msgs), len(b.Msgs))
	}
	for i := range a.Msgs {
		x, y := a.Msgs[i], b.Msgs[i]
		switch {
		case x.Key != y.Key:
			return "message set", x.Key + " vs " + y.Key
		case strings.Join(x.Names, ",") != strings.Join(y.Names, ","):
			return "placeholder names", fmt.Sprintf("%s: %v vs %v", x.Key, x.Names, y.Names)
		case x.PH != y.PH:
			return "placeholder string", fmt.Sprintf("%s: %q vs %q", x.Key, x.PH, y.PH)
		case x.ID != y.ID:
			return "message id", fmt.Sprintf("%s (%q): %d vs %d", x.Key, x.PH, x.ID, y.ID)
		}
	}
	for _, k := range sortedKeys(a.Renders) {
		if a.Renders[k] != b.Renders[k] {
			return "rendered output", k + " " + firstDiff(a.Renders[k], b.Renders[k])
		}
	}
	for _, k := range sortedKeys(a.JS) {
		if a.JS[k] != b.JS[k] {
			return "generated JavaScript", k + " " + firstDiff(a.JS[k], b.JS[k])
		}
	}
	return "", ""
}

func sortedKeys(m map[string]string) []string {
	ks := make([]string, 0, len(m))
	for k := range m {
		ks = append(ks, k)
	}
	sort.Strings(ks)
	return ks
}

func vecDigest(v vector) string {
	b, _ := json.Marshal(v)
	return fmt.Sprintf("%016x", wk.FNV(string(b)))
}

// c13Case is the replay case of C13.
type c13Case struct {
	Bundle    *gen.Case           `json:"bundle"`
	MapOrder  []simrt.MapDecision `json:"maporder"`
	FileOrder []int               `json:"fileorder,omitempty"`
	CatKind   int                 `json:"cat_kind"`
	Native    bool                `json:"native,omitempty"`  // statistical replay: repeated native compilations
	Process   bool                `json:"process,omitempty"` // compare with a fresh process (different history)
	Unit      int                 `json:"unit,omitempty"`
	Index     int                 `json:"index,omitempty"`
	Sched     uint64              `json:"sched,omitempty"` // seed of the goroutine schedule of the perturbed observation (0 = default)
}

func c13Opts() gen.Opts {
	o := gen.DefaultOpts()
	o.Directives = []string{"|vq", "|vbang"}
	o.Funcs = []string{"vfail"}
	o.MsgHeavy = true
	o.MapLiterals = true
	o.CaseTwins = true
	o.SameFileNames = true
	o.UnnamedFiles = true
	return o
}

func permutations(n int) [][]int {
	var out [][]int
	p := make([]int, n)
	for i := range p {
		p[i] = i
	}
	var rec func(k int)
	rec = func(k int) {
		if k == n {
			out = append(out, append([]int(nil), p...))
			return
		}
		for i := k; i < n; i++ {
			p[k], p[i] = p[i], p[k]
			rec(k + 1)
			p[k], p[i] = p[i], p[k]
		}
	}
	rec(0)
	return out
}

// c13Check compares one perturbed observation with the reference.
func c13Check(cs *c13Case, ref vector, plan *simrt.MapPlan, o obsOpts) (*wk.Failure, vector, *simrt.Result) {
	o.order = cs.FileOrder
	v, res := observeUnder(cs.Bundle, o, plan)
	if v.Trouble != "" {
		if ref.Trouble == "" {
			// the reference observation finished normally: crashing or hanging under another order is a
			// difference like any other
			out := *cs
			if plan != nil {
				out.MapOrder = plan.Log
			}
			if out.MapOrder == nil {
				out.MapOrder = []simrt.MapDecision{}
			}
			b, _ := json.Marshal(&out)
			return &wk.Failure{Class: "unequal", Site: "crash or hang under another order", Detail: "the compilation finishes under the canonical order and under another legal order it does not: " + v.Trouble, Replay: b}, v, res
		}
		return &wk.Failure{Class: "machinery", Detail: v.Trouble}, v, res
	}
	comp, detail := diffVectors(ref, v, cs.FileOrder == nil || cs.Bundle.OneError)
	if comp == "" {
		return nil, v, res
	}
	out := *cs
	out.Sched = c13SchedSeed
	if plan != nil {
		out.MapOrder = plan.Log
	}
	if out.MapOrder == nil {
		out.MapOrder = []simrt.MapDecision{}
	}
	b, _ := json.Marshal(&out)
	why := "a different legal map iteration order"
	if c13SchedSeed != 0 {
		why = "another schedule of the goroutines the compilation starts"
	}
	if cs.FileOrder != nil {
		why = fmt.Sprintf("file insertion order %v", cs.FileOrder)
	}
	var sites []string
	for _, d := range out.MapOrder {
		sites = append(sites, SiteName(d.Site))
	}
	if len(sites) > 6 {
		sites = sites[:6]
	}
	return &wk.Failure{Class: "unequal", Site: comp,
		Detail: fmt.Sprintf("%s differs under %s (range sites perturbed: %v): %s", comp, why, sites, trunc(detail, 600)), Replay: b}, v, res
}

// C13 is the worker entry point for property C13.
func C13(c *wk.Ctx) {
	LoadSites(c.Sites)
	sut.InstallExtensions()
	sut.SetObligatory(nil)
	full := obsOpts{renders: 4, js: true}
	if c.Mode == "replay" {
		var cs c13Case
		readReplay(c, &cs)
		u := wk.NewUnit(0)
		full.catKind = cs.CatKind
		if cs.Native {
			var first vector
			for k := 0; k < 200; k++ {
				v, _ := observeUnder(cs.Bundle, full, nil)
				u.Evals++
				if k == 0 {
					first = v
				} else if comp, detail := diffVectors(first, v, true); comp != "" {
					b, _ := json.Marshal(&cs)
					u.AddFail(&wk.Failure{Class: "native-disagreement", Site: comp,
						Detail: "two compilations of the same sources in one process (native map iteration order) disagree: " + comp + ": " + trunc(detail, 500), Replay: b})
					break
				}
			}
			c.Emit(u)
			return
		}
		if cs.Process {
			// this process compiles the unit's cases first to last, a fresh child last to first
			// statistical replay: several rounds of two fresh processes, one compiling the unit's cases first
			// to last, one last to first (state such as a sync.Pool makes a single round inconclusive)
			k := fmt.Sprintf("c%d", cs.Index)
			var mine, other map[string]string
			for round := 0; round < 8; round++ {
				var err error
				if mine, err = c.Child("oracle", cs.Unit, "fwd"); err != nil {
					c.Fatal("%v", err)
				}
				if other, err = c.Child("oracle", cs.Unit, "rev"); err != nil {
					c.Fatal("%v", err)
				}
				u.Evals += 2
				if mine[k] != other[k] {
					break
				}
			}
			if mine[k] != other[k] {
				b, _ := json.Marshal(&cs)
				u.AddFail(&wk.Failure{Class: "unequal", Site: "process: the result of a compilation depends on what the process compiled before",
					Detail: fmt.Sprintf("case %d of unit %d observed %s here and %s in a fresh process that compiled the unit's cases in reverse order", cs.Index, cs.Unit, mine[k], other[k]), Replay: b})
			}
			u.Evals = 2
			c.Emit(u)
			return
		}
		ref, _ := observeUnder(cs.Bundle, full, simrt.CanonicalPlan())
		for _, i := range cs.FileOrder {
			if i < 0 || i >= len(cs.Bundle.Files) {
				u.AddFail(&wk.Failure{Class: "invalid-case", Detail: "file order"})
				c.Emit(u)
				return
			}
		}
		if cs.FileOrder != nil && len(cs.FileOrder) != len(cs.Bundle.Files) {
			u.AddFail(&wk.Failure{Class: "invalid-case", Detail: "file order length"})
			c.Emit(u)
			return
		}
		c13SchedSeed = cs.Sched
		f, _, _ := c13Check(&cs, ref, simrt.ExplicitPlan(cs.MapOrder), full)
		c13SchedSeed = 0
		u.Evals = 2
		u.AddFail(f)
		c.Emit(u)
		return
	}
	units, perUnit := 400, perUnitC13
	if c.Tier == "thorough" {
		units = 40000
	}
	native := c.Extra == "native"
	if c.Mode == "oracle" {
		u := wk.NewUnit(c.Start)
		for k, v := range c13Order(c, c.Start, perUnit, c.Extra != "fwd") {
			u.Observe(k, v)
		}
		c.Emit(u)
		return
	}
	if c.Mode == "plan" {
		c.Emit(map[string]interface{}{"ev": "plan", "units": units, "cases_per_unit": perUnit})
		return
	}
	for run := c.Start; run < c.Start+c.Count && run < units; run++ {
		c.Begin(run)
		u := wk.NewUnit(run)
		if !native {
			// processes with different histories must agree: a fresh child compiles the cases last to first
			mine := c13Order(c, run, perUnit, false)
			other, err := c.Child("oracle", run, "rev")
			if err != nil {
				u.Trouble = err.Error()
			} else {
				for ci := 0; ci < perUnit; ci++ {
					k := fmt.Sprintf("c%d", ci)
					u.Evals++
					u.Counters["runs_process_history"]++
					if mine[k] != other[k] {
						gc, catKind := c13Gen(c, run, ci)
						cs := &c13Case{Bundle: gc, CatKind: catKind, Process: true, Unit: run, Index: ci}
						b, _ := json.Marshal(cs)
						u.AddFail(&wk.Failure{Class: "unequal", Site: "process: the result of a compilation depends on what the process compiled before",
							Detail: fmt.Sprintf("case %d of unit %d observed %s here and %s in a fresh process that compiled the unit's cases in reverse order", ci, run, mine[k], other[k]), Replay: b})
					}
				}
			}
		}
		for ci := 0; ci < perUnit; ci++ {
			// one PRNG per case, so that the native and the instrumented worker draw the same case
			r := simrt.NewRNG(c.UnitSeed(run, uint64(1300+ci)))
			gc, catKind := c13Gen(c, run, ci)
			r.Intn(3)
			cs := &c13Case{Bundle: gc, CatKind: catKind}
			full.catKind = cs.CatKind
			if native {
				// plain build, native map order: K compilations in this process
				var first vector
				for k := 0; k < 3; k++ {
					v, _ := observeUnder(gc, full, nil)
					u.Evals++
					if k == 0 {
						first = v
						u.Observe(fmt.Sprintf("c%d", ci), vecDigest(v))
					} else if comp, detail := diffVectors(first, v, true); comp != "" {
						cs.Native = true
						b, _ := json.Marshal(cs)
						u.AddFail(&wk.Failure{Class: "native-disagreement", Site: comp,
							Detail: "two compilations of the same sources in one process (native map iteration order) disagree: " + comp + ": " + trunc(detail, 500), Replay: b})
					}
				}
				continue
			}
			stats := simrt.RandomPlan(1, 0) // canonical decisions, but with per-site statistics
			ref, _ := observeUnder(gc, full, stats)
			u.Evals++
			if ref.Trouble != "" {
				u.Trouble = ref.Trouble
				continue
			}
			u.Observe(fmt.Sprintf("c%d", ci), vecDigest(ref))
			u.Counters["cases"]++
			if !ref.Accept {
				u.Counters["cases_rejected_by_compiler"]++
			} else {
				u.Counters["messages_observed"] += int64(len(ref.Msgs))
				u.Counters["js_files_observed"] += int64(len(ref.JS))
			}
			u.Hash("case", wk.FNV(gc.Skeleton()))
			for site, n := range stats.UnstableSites {
				_ = site
				u.Counters["unstable_order_sites"] += int64(n)
			}
			check := func(plan *simrt.MapPlan, order []int, label string) {
				cs.FileOrder = order
				f, _, _ := c13Check(cs, ref, plan, full)
				cs.FileOrder = nil
				u.Evals++
				u.Counters["runs_"+label]++
				if plan != nil {
					u.Counters["map_order_decisions_perturbed"] += plan.Perturbed
					u.Counters["map_range_executions"] += plan.Calls
					if plan.Perturbed > 0 {
						h := uint64(0)
						for _, d := range plan.Log {
							h = h*1099511628211 ^ uint64(d.Site)<<20 ^ uint64(d.Exec)<<8 ^ uint64(d.D)
						}
						u.Hash("order_assignment", h^wk.FNV(gc.Skeleton()))
					}
				}
				if f != nil && f.Class == "machinery" {
					u.Trouble = f.Detail
					return
				}
				u.AddFail(f)
			}
			// seeded runs with independent decisions per site execution
			for k, p := range []float64{1, 1, 0.3, 0.3, 0.05, 0.05} {
				check(simrt.RandomPlan(c.UnitSeed(run, uint64(9000+ci*16+k)), p), nil, "random_plan")
			}
			// the goroutines of the compilation under two seeded schedules
			for k := 0; k < 2; k++ {
				c13SchedSeed = c.UnitSeed(run, uint64(9500+ci*16+k)) | 1
				check(simrt.CanonicalPlan(), nil, "goroutine_schedule")
				c13SchedSeed = 0
			}
			// one site at a time
			var sites []int
			for s, n := range stats.SiteMaxN {
				if n >= 2 {
					sites = append(sites, s)
				}
			}
			sort.Ints(sites)
			for _, s := range sites {
				u.Hash("range_site_reached", uint64(s))
				n := stats.SiteMaxN[s]
				for _, d := range []int{1, n - 1} {
					if d >= 1 && (d == 1 || n > 2) {
						check(simrt.SingleSitePlan(s, uint32(d)), nil, "single_site")
					}
				}
			}
			// file insertion order
			perms := permutations(len(gc.Files))
			if len(perms) > 8 {
				for i := len(perms) - 1; i > 0; i-- {
					j := r.Intn(i + 1)
					perms[i], perms[j] = perms[j], perms[i]
				}
				perms = perms[:8]
			}
			for _, p := range perms {
				id := true
				for i, x := range p {
					if i != x {
						id = false
					}
				}
				if !id {
					check(simrt.CanonicalPlan(), p, "file_order")
				}
			}
			if ci == 0 {
				u.Sample(1, map[string]interface{}{"files": len(gc.Files), "accepted": ref.Accept, "messages": len(ref.Msgs), "range_sites": sites,
					"first_file": trunc(gc.Files[0].Source(), 300)})
			}
		}
		c.Emit(u)
	}
}

const perUnitC13 = 4

// c13Gen draws case ci of a unit (the same in every worker mode).
// c13Compiles reports whether the (not yet damaged) bundle is accepted by the compiler: only then
// is an injected error the bundle's only error.
func c13Compiles(gc *gen.Case) bool {
	ok := false
	run := func() {
		_, err := sut.Compile(gc)
		sut.Cleanup()
		ok = err == nil
	}
	if simrt.Active() {
		run()
	} else {
		inSim(run)
	}
	return ok
}

func c13Gen(c *wk.Ctx, run, ci int) (*gen.Case, int) {
	r := simrt.NewRNG(c.UnitSeed(run, uint64(1300+ci)))
	o := c13Opts()
	if ci%4 == 3 {
		o.DropRequired = 0.5 // compile errors that list the missing params and print the offending call
	}
	o.Focus = gen.FocusFor(c.UnitSeed(run, uint64(500+ci)))
	gc := gen.Generate(c.UnitSeed(run, uint64(500+ci)), o)
	if ci%4 == 2 && r.Intn(2) == 0 {
		// several undefined globals in one template (and in two): which one the compiler names must not vary
		f := gc.Files[r.Intn(len(gc.Files))]
		for k, n := 0, 2+r.Intn(3); k < n; k++ {
			t := f.Templates[r.Intn(len(f.Templates))]
			t.Body = append(t.Body, &gen.Node{K: "print", E: fmt.Sprintf("UNDEFINED_%c + app.UNDEF.G%d", 'A'+byte(r.Intn(5)), r.Intn(4))})
		}
	}
	if ci%4 == 1 && r.Intn(2) == 0 {
		// two or three declared but unused params, or undeclared params passed to a call: the compile
		// error lists several names
		f := gc.Files[r.Intn(len(gc.Files))]
		t := f.Templates[r.Intn(len(f.Templates))]
		if r.Intn(2) == 0 {
			for k, n := 0, 2+r.Intn(2); k < n; k++ {
				t.Params = append(t.Params, gen.Param{Name: fmt.Sprintf("unused%c", 'p'+byte(k))})
			}
			t.NoDoc = false
		} else {
			var calls []*gen.Node
			var walk func(ns []*gen.Node)
			walk = func(ns []*gen.Node) {
				for _, n := range ns {
					if n.K == "call" {
						calls = append(calls, n)
					}
					walk(n.Body)
					walk(n.Else)
					for _, cd := range n.Conds {
						walk(cd.Body)
					}
				}
			}
			for _, ff := range gc.Files {
				for _, tt := range ff.Templates {
					walk(tt.Body)
				}
			}
			if len(calls) > 0 {
				cl := calls[r.Intn(len(calls))]
				for k, n := 0, 2+r.Intn(2); k < n; k++ {
					cl.Args = append(cl.Args, &gen.Arg{Key: fmt.Sprintf("extra%c", 'x'+byte(k)), E: "1"})
				}
			}
		}
	}
	if ci%4 == 0 && run%2 == 1 && c13Compiles(gc) {
		// exactly one error: a call to a template that does not exist, under a short name that
		// exists (possibly in several namespaces)
		var calls []*gen.Node
		var walk func(ns []*gen.Node)
		walk = func(ns []*gen.Node) {
			for _, n := range ns {
				if n.K == "call" {
					calls = append(calls, n)
				}
				walk(n.Body)
				walk(n.Else)
				for _, cd := range n.Conds {
					walk(cd.Body)
				}
			}
		}
		var shorts []string
		for _, ff := range gc.Files {
			for _, tt := range ff.Templates {
				walk(tt.Body)
				shorts = append(shorts, tt.Name)
			}
		}
		sort.Strings(shorts)
		pick := shorts[r.Intn(len(shorts))]
		for i := 1; i < len(shorts); i++ {
			if shorts[i] == shorts[i-1] {
				pick = shorts[i] // a short name that several namespaces use
			}
		}
		if len(calls) > 0 {
			calls[r.Intn(len(calls))].Tmpl = "app.nosuch." + pick
		} else {
			t := gc.Files[0].Templates[0]
			t.Body = append(t.Body, &gen.Node{K: "call", Tmpl: "app.nosuch." + pick})
		}
		gc.OneError = true
	}
	if ci%4 == 0 && run%2 == 0 && len(gc.Files) >= 2 {
		// a param that is consumed only through a cycle of data="all" calls between two files: two
		// templates forward everything to each other, one of them also to a template that declares the
		// param, an outside caller declares the param and hands it to the cycle without using it.
		// Whatever the compiler decides about that caller, it must decide it under every file order.
		f0, f1 := gc.Files[0], gc.Files[1]
		full := func(from, to *gen.File, n string) string {
			if from == to || from.Namespace == to.Namespace {
				return "." + n
			}
			return to.Namespace + "." + n
		}
		fwd := func(calls ...string) []*gen.Node {
			var body []*gen.Node
			for _, cl := range calls {
				body = append(body, &gen.Node{K: "call", Tmpl: cl, Data: "all"})
			}
			return []*gen.Node{{K: "text", S: "m"}, {K: "if", E: "false", Body: body}}
		}
		f0.Templates = append(f0.Templates,
			&gen.Template{Name: "cya", NoDoc: false, Body: fwd(full(f0, f1, "cyb"))},
			&gen.Template{Name: "cyd", Params: []gen.Param{{Name: "b"}}, Body: []*gen.Node{{K: "call", Tmpl: ".cya", Data: "all"}}})
		f1.Templates = append(f1.Templates,
			&gen.Template{Name: "cyb", Body: fwd(full(f1, f0, "cya"), ".cyc")},
			&gen.Template{Name: "cyc", Params: []gen.Param{{Name: "b", Optional: true}}, Body: []*gen.Node{{K: "print", E: "$b"}}})
	}
	if run%5 == 1 && ci%4 == 3 && len(gc.Files) >= 2 && c13Compiles(gc) {
		// exactly one error: a template of the first file defined again, under the same full name, in
		// a differently named second file
		f0, f1 := gc.Files[0], gc.Files[1]
		if f0.Name != f1.Name && len(f0.Templates) > 0 {
			dup := &gen.File{Name: "dup_" + f1.Name, Namespace: f0.Namespace, Templates: []*gen.Template{{Name: f0.Templates[0].Name, Body: []*gen.Node{{K: "text", S: "again"}}}}}
			gc.Files = append(gc.Files, dup)
			gc.OneError = true
		}
	}
	if run%5 == 0 && ci%4 == 3 && len(gc.Files) >= 2 {
		// two files that do not parse: two independent errors; which one is reported may depend on the
		// file order, but not on anything else
		for i := 0; i < 2; i++ {
			gc.Files[i] = &gen.File{Name: gc.Files[i].Name, Text: damage(gc.Files[i].Source(), c.UnitSeed(run, uint64(700+ci*4+i)))}
		}
	}
	if ci%2 == 0 {
		gc.GlobalsFile = true
	} else if run%3 == 0 {
		gc.GlobalsSplit = true
	}
	return gc, r.Intn(3)
}

// c13Order observes the unit's cases under the canonical order, first to last or last to first.
func c13Order(c *wk.Ctx, run, perUnit int, reverse bool) map[string]string {
	out := map[string]string{}
	for k := 0; k < perUnit; k++ {
		ci := k
		if reverse {
			ci = perUnit - 1 - k
		}
		gc, catKind := c13Gen(c, run, ci)
		v, _ := observeUnder(gc, obsOpts{renders: 4, js: true, catKind: catKind}, simrt.CanonicalPlan())
		out[fmt.Sprintf("c%d", ci)] = vecDigest(v)
	}
	return out
}
