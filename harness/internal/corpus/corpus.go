// Package corpus builds the string workload of C05/C18: the repository's own Soy sources and
// test inputs, and seeded mutations of them.
package corpus

import (
	"fmt"
	"go/ast"
	"go/parser"
	"go/token"
	"os"
	"path/filepath"
	"sort"
	"strconv"
	"strings"

	"verif/simrt"
)

// Corpus is the deterministic base set of inputs.
type Corpus struct {
	Files   []string // whole Soy files
	Strings []string // string literals of the test files (templates bodies, expressions, ...)
}

// Load collects testdata/*.soy and every string literal of every *_test.go below root.
func Load(root string) (*Corpus, error) {
	c := &Corpus{}
	seen := map[string]bool{}
	var paths []string
	err := filepath.Walk(root, func(p string, info os.FileInfo, err error) error {
		if err != nil {
			return err
		}
		if info.IsDir() {
			if info.Name() == ".git" {
				return filepath.SkipDir
			}
			return nil
		}
		paths = append(paths, p)
		return nil
	})
	if err != nil {
		return nil, err
	}
	sort.Strings(paths)
	for _, p := range paths {
		switch {
		case strings.HasSuffix(p, ".soy"):
			b, err := os.ReadFile(p)
			if err != nil {
				return nil, err
			}
			if !seen[string(b)] {
				seen[string(b)] = true
				c.Files = append(c.Files, string(b))
			}
		case strings.HasSuffix(p, "_test.go"):
			fset := token.NewFileSet()
			f, err := parser.ParseFile(fset, p, nil, 0)
			if err != nil {
				continue
			}
			ast.Inspect(f, func(n ast.Node) bool {
				lit, ok := n.(*ast.BasicLit)
				if !ok || lit.Kind != token.STRING {
					return true
				}
				s, err := strconv.Unquote(lit.Value)
				if err != nil || len(s) < 1 || len(s) > 4000 || seen[s] {
					return true
				}
				seen[s] = true
				c.Strings = append(c.Strings, s)
				return true
			})
		}
	}
	return c, nil
}

// Wrap puts a template body into a minimal file.
func Wrap(body string) string {
	return "{namespace t}\n/** */\n{template .x}\n" + body + "\n{/template}\n"
}

// Tags is the tag/token dictionary used for sequence generation.
var Tags = []string{
	"{namespace a.b}", "{namespace a autoescape=\"false\"}", "{template .t}", "{/template}", "{template .u private=\"true\"}",
	"/** */", "/**\n * @param x\n * @param? y\n */", "{@param x: ?}", "{@param? y: list<string> = []}", "{@param x: ",
	"{if $x}", "{elseif $y}", "{else}", "{/if}", "{switch $x}", "{case 1}", "{case 'a', 2}", "{default}", "{/switch}",
	"{foreach $i in $xs}", "{ifempty}", "{/foreach}", "{for $i in range(3)}", "{/for}",
	"{let $a: 1 /}", "{let $a}", "{/let}", "{call .t /}", "{call .t}", "{/call}", "{call a.b.t data=\"all\" /}",
	"{call .t data=\"$x\"}", "{param a: 1 /}", "{param a}", "{/param}", "{param key=\"a\" value=\"$x +\"/}",
	"{msg desc=\"d\"}", "{msg meaning=\"m\" desc=\"\"}", "{/msg}", "{plural $n}", "{/plural}", "{plural length($xs)}",
	"{css a}", "{css $x, b}", "{css $x +, a}", "{css foo", "{literal}", "{/literal}", "{log}", "{/log}", "{debugger}",
	"{sp}", "{nil}", "{\\n}", "{\\r}", "{\\t}", "{lb}", "{rb}", "{print $x}", "{$x}", "{$x|noAutoescape}", "{$x|truncate:3,true}",
	"{$x.y?.z[0]?[1]}", "{$ij.a}", "{GLOBAL}", "{a.b.C}", "{'s'}", "{1 + 2 * 3}", "{not $x ? 1 : 2}", "{[1, 2]}", "{['a': 1]}", "{[:]}",
	"{{$x}}", "{{", "}}", "{", "}", "/}", "//c\n", " //c\n", "/* c */", "/*", "*/", "/**", "<b>", "</b>", "<a href=\"{$x}\">",
	"text", " ", "\n", "\t", "'", "\"", "\\", "$", "$x", ".", "?", ":", "|", ",", "=", "-", "0x", "1e", "1.", "ü", "\xff", "\x00",
	"{alias a.b}", "{delcall x}", "{deltemplate x}", "{delpackage x}", "{foo}", "{/foo}", "{\\x}", "{ }", "{}",
	"'\\uD83D'", "'\\uDE00'", "'\\uD83D\\u12'", "'\\u00e9\\uD83D\\uDE00'", "'\\u12'", "'\\x4'", "'\\", "{'\\uD83D'}", "{$x + '\\uDE00'}",
	"range(1,2,0)", "isFirst($i)", "index($i)", "keys($m)", "f(", "f()", "(", ")", "[", "]", "?[", "?.", "?:", " and ", " or ", " not ",
	"==", "!=", "<=", ">=", "<", ">", "+", "*", "/", "%", "true", "false", "null", "1 2 3", "'a' 'b'",
}

// ExprAtoms are building blocks for expression inputs.
var ExprAtoms = []string{
	"1", "-1", "0", "1.5", "1e3", "0x1F", "'a'", "'\\uD83D'", "'\\uD83D\\uDE00'", "'\\u00'", "'\\n'", "\"q\"", "true", "false", "null", "$a", "$a.b", "$a?.b", "$a[0]", "$a?[1]", "$a.0", "$ij.x",
	"GLOBAL", "a.b.c", "f()", "f(1)", "f(1, $a)", "[1, 2]", "[]", "[:]", "['k': 1]", "['k': 1, 'j': [2]]", "(1)", "not $a", "-$a",
	"+", "-", "*", "/", "%", "==", "!=", "<", ">", "<=", ">=", "and", "or", "?", ":", "?:", ",", "(", ")", "[", "]", "|", "}", "{", " ", "\n", "'", "\"", "\\",
}

func tokens(s string) []int {
	// token boundaries: before every '{', after every '}', at whitespace changes
	var cuts []int
	cuts = append(cuts, 0)
	for i := 1; i < len(s); i++ {
		a, b := s[i-1], s[i]
		sp := func(c byte) bool { return c == ' ' || c == '\n' || c == '\t' }
		if b == '{' || a == '}' || sp(a) != sp(b) || b == '|' || b == '(' || b == ')' || b == ',' || b == ':' {
			cuts = append(cuts, i)
		}
	}
	cuts = append(cuts, len(s))
	return cuts
}

// Mutate derives one mutant of base.
func Mutate(r *simrt.RNG, base string, c *Corpus) (string, string) {
	cuts := tokens(base)
	nt := len(cuts) - 1
	pick := func() (int, int) {
		if nt <= 0 {
			return 0, 0
		}
		i := r.Intn(nt)
		return cuts[i], cuts[i+1]
	}
	switch r.Intn(10) {
	case 0: // truncate
		return base[:r.Intn(len(base)+1)], "truncate"
	case 1: // delete token
		a, b := pick()
		return base[:a] + base[b:], "delete"
	case 2: // duplicate token
		a, b := pick()
		return base[:b] + base[a:b] + base[b:], "duplicate"
	case 3: // swap two tokens
		if nt < 2 {
			return base, "swap"
		}
		i, j := r.Intn(nt), r.Intn(nt)
		if i > j {
			i, j = j, i
		}
		if i == j {
			return base, "swap"
		}
		return base[:cuts[i]] + base[cuts[j]:cuts[j+1]] + base[cuts[i+1]:cuts[j]] + base[cuts[i]:cuts[i+1]] + base[cuts[j+1]:], "swap"
	case 4: // insert dictionary tag at a token boundary
		a, _ := pick()
		return base[:a] + Tags[r.Intn(len(Tags))] + base[a:], "insert-tag"
	case 5: // replace token by dictionary tag
		a, b := pick()
		return base[:a] + Tags[r.Intn(len(Tags))] + base[b:], "replace-tag"
	case 6: // flip / insert random byte
		if len(base) == 0 {
			return string([]byte{byte(r.Intn(256))}), "byte"
		}
		i := r.Intn(len(base))
		bs := []byte(base)
		if r.Intn(2) == 0 {
			bs[i] = byte(r.Intn(256))
			return string(bs), "byte"
		}
		return base[:i] + string([]byte{byte(r.Intn(256))}) + base[i:], "byte"
	case 7: // splice with another corpus string
		o := c.Strings[r.Intn(len(c.Strings))]
		a, _ := pick()
		oc := tokens(o)
		k := oc[r.Intn(len(oc))]
		return base[:a] + o[k:], "splice"
	case 8: // truncate, then append a tag that opens something
		return base[:r.Intn(len(base)+1)] + Tags[r.Intn(len(Tags))], "truncate-tag"
	default: // delete a range
		if len(base) < 2 {
			return base, "cut"
		}
		i := r.Intn(len(base))
		j := i + 1 + r.Intn(minInt(len(base)-i, 40))
		return base[:i] + base[j:], "cut"
	}
}

func minInt(a, b int) int {
	if a < b {
		return a
	}
	return b
}

// TagSequence builds a file out of n dictionary tags at file, template or nested-block level.
func TagSequence(r *simrt.RNG, n int) (string, string) {
	var sb strings.Builder
	level := r.Intn(3)
	switch level {
	case 1:
		sb.WriteString("{namespace a.b}\n/** @param x */\n{template .t}\n")
	case 2:
		sb.WriteString("{namespace a.b}\n/** @param x */\n{template .t}\n{if $x}{foreach $i in $x}")
	}
	for i := 0; i < n; i++ {
		sb.WriteString(Tags[r.Intn(len(Tags))])
		if r.Intn(4) == 0 {
			sb.WriteString(" ")
		}
	}
	if r.Intn(2) == 0 {
		switch level {
		case 1:
			sb.WriteString("\n{/template}\n")
		case 2:
			sb.WriteString("{/foreach}{/if}\n{/template}\n")
		}
	}
	return sb.String(), [...]string{"tags-file", "tags-template", "tags-nested"}[level]
}

// Names come from a deliberately tiny pool, so that namespaces, aliases and callee names overlap,
// shadow and refer to each other (a.a, a.b.a, ...).
var skelNames = []string{"a", "b", "a.a", "a.b", "b.a", "a.b.a", "a.a.a", "b.b"}

// bodyTags are dictionary entries that make sense inside a template body.
var bodyTags = []string{
	"{if $x}", "{elseif $y}", "{else}", "{/if}", "{switch $x}", "{case 1}", "{default}", "{/switch}", "{foreach $i in $xs}", "{ifempty}", "{/foreach}", "{for $i in range(3)}", "{/for}",
	"{let $a: 1 /}", "{let $a}", "{/let}", "{/call}", "{param a: 1 /}", "{param a}", "{/param}", "{msg desc=\"d\"}", "{/msg}", "{plural $n}", "{case 0}", "{/plural}",
	"{css a}", "{css $x, b}", "{literal}", "{/literal}", "{log}", "{/log}", "{sp}", "{nil}", "{lb}", "{$x}", "{$x|noAutoescape}", "{$x.y?.z[0]}", "{$ij.a}", "{GLOBAL}", "{a.b.C}", "{['a': 1]}",
	"text ", "<b>", "//c\n", "/* c */", "{delcall a.t /}",
	// text that looks like markup without being a tag, inside and outside messages
	"1 < 2", "<-", "<{$x}>", "</", "<>", "< b>", "<b", "<!--", "-->", "&lt;", "a<b>c", "<a href=\"{$x}\">", "</a>", "<br/>", "<1>", "<_>", " > ", "<<", "<b <i>",
}

// Preludes are byte sequences a file may begin with before its first tag: byte-order marks, a
// shebang, blank lines and carriage returns, a NUL.
var Preludes = []string{"\xef\xbb\xbf", "\xef\xbb\xbf\n", "\xfe\xff", "\xff\xfe", "#!/usr/bin/soy\n", "\r\n", "\n\n\n", "\x00", " ", "\t", "\ufeff\ufeff", "// generated\n", "/* licence */\n"}

// WithPrelude puts one of the Preludes in front of the input (one time in k).
func WithPrelude(r *simrt.RNG, s string, k int) (string, bool) {
	if r.Intn(k) != 0 {
		return s, false
	}
	return Preludes[r.Intn(len(Preludes))] + s, true
}

// paramTypes are type expressions of header params: complete, nested, and stopping right after
// an opening or separating token.
var paramTypes = []string{
	"string", "int", "?", "any", "list<string>", "map<string, int>", "list<map<string, list<int>>>", "[name: string, age: int]", "int|string", "string|null",
	"list<", "map<string,", "map<", "[name:", "[", "int|", "list<>", "map<,>", "list<list<", "[:]", "|", "<", ">", ",", "list<string", "[name: string", " ",
	"a.b.Type", "string = 'x'", "int = 1", "list<int> = [1, 2]",
}

// soydocLines are lines of a soydoc comment.
var soydocLines = []string{
	" * @param x\n", " * @param? y  An optional one.\n", " * Some text.\n", " *\n", " * @param\n", " * @param?\n", " * @param   \n", " * @param? \t \n", " * @param x y z\n", " * @param 9\n",
	" * @param x @param y\n", "@param x\n", " * @return nothing\n", " * {@param x: int}\n", " * @param x\r\n", " * @param\u00a0x\n", " * @param? x\n * @param x\n",
}

// Postludes are ways a file may end after its last tag.
var Postludes = []string{"// the end", "//", "// c\r", "/* unterminated", "/* c */", "/** doc", "   ", "\t", "\r\n", "\n// x", "{", "{/", "//{template .x}", "{sp}", "text"}

// msgAtoms are pieces of a message body.
var msgAtoms = []string{
	"Hello ", "world", " ", "{$x}", "{$x.y}", "{$x|escapeUri}", "{print $y}", "<b>", "</b>", "<a href=\"{$x}\">", "</a>", "<br/>", "<img src=\"s\"/>",
	"1 < 2", "<-", "<{$x}>", "</", "<>", "< b>", "<b", "<!--", "&lt;", " > ", "<<", "a<b>c", "<1>", "{lb}0{rb}", "{sp}", "{nil}", "{\\n}",
	"{default}", "{case 2}", "{/plural}", "{plural $n}", "{call .t /}", "{if $x}", "{/if}", "{msg desc=\"\"}", "//c\n", "/* c */", "'", "\"", "{", "}",
}

// Skeleton builds a structurally plausible file: namespace, aliases, a few documented templates
// whose bodies are short tag sequences with calls to names from the same tiny pool.
func Skeleton(r *simrt.RNG) string {
	name := func() string { return skelNames[r.Intn(len(skelNames))] }
	var sb strings.Builder
	sb.WriteString("{namespace " + name())
	if r.Intn(4) == 0 {
		sb.WriteString(" autoescape=\"" + []string{"true", "false", "contextual", "strict"}[r.Intn(4)] + "\"")
	}
	sb.WriteString("}\n")
	for i, n := 0, r.Intn(4); i < n; i++ {
		sb.WriteString("{alias " + name() + "}\n")
	}
	for t, nt := 0, 1+r.Intn(3); t < nt; t++ {
		switch r.Intn(4) {
		case 0:
			sb.WriteString("/** @param x\n * @param? y */\n")
		case 1:
			sb.WriteString("/** */\n")
		case 2:
			// a soydoc block put together from lines, ordinary and odd
			sb.WriteString("/**\n")
			for k, nk := 0, 1+r.Intn(4); k < nk; k++ {
				sb.WriteString(soydocLines[r.Intn(len(soydocLines))])
			}
			sb.WriteString(" */\n")
		}
		fmt.Fprintf(&sb, "{template .%s}\n", []string{"t", "u", "a", "b"}[r.Intn(4)])
		if r.Intn(3) == 0 {
			sb.WriteString("{@param xs: list<int>}\n")
		}
		if r.Intn(4) == 0 {
			// header params whose types are well formed, odd or cut short
			for k, nk := 0, 1+r.Intn(2); k < nk; k++ {
				sb.WriteString("{@param" + []string{"", "?"}[r.Intn(2)] + " p" + fmt.Sprint(k) + ": " + paramTypes[r.Intn(len(paramTypes))] + "}\n")
			}
		}
		for i, n := 0, r.Intn(6); i < n; i++ {
			if r.Intn(3) == 0 {
				callee := name() + "." + []string{"t", "u", "a", "x"}[r.Intn(4)]
				if r.Intn(4) == 0 {
					callee = "." + []string{"t", "u", "a"}[r.Intn(3)]
				}
				switch r.Intn(3) {
				case 0:
					sb.WriteString("{call " + callee + " /}")
				case 1:
					sb.WriteString("{call " + callee + " data=\"all\"}{param a: 1 /}{/call}")
				default:
					sb.WriteString("{call " + callee + "}")
				}
			} else if r.Intn(6) == 0 {
				// a dotted global from the same name pool, in plain and in quoted-expression positions
				g := name() + "." + []string{"C", "x", "a", "VERSION"}[r.Intn(4)]
				sb.WriteString([]string{"{" + g + "}", "{css " + g + ", x}", "{call .t}{param key=\"a\" value=\"" + g + "\"/}{/call}", "{call .t data=\"" + g + "\"/}", "{if " + g + " == 1}y{/if}", "{print " + g + "|escapeUri}"}[r.Intn(6)])
			} else if r.Intn(4) == 0 {
				// a whole message: its body has a sub-parser of its own (text, html tags, placeholders, plural)
				sb.WriteString([]string{"{msg desc=\"d\"}", "{msg meaning=\"m\" desc=\"\"}", "{msg desc=\"\"}{plural $n}{case 1}"}[r.Intn(3)])
				for k, nk := 0, 1+r.Intn(4); k < nk; k++ {
					sb.WriteString(msgAtoms[r.Intn(len(msgAtoms))])
				}
				if r.Intn(10) != 0 {
					sb.WriteString("{/msg}")
				}
			} else {
				sb.WriteString(bodyTags[r.Intn(len(bodyTags))])
			}
		}
		if r.Intn(8) != 0 {
			sb.WriteString("\n{/template}\n")
		}
	}
	if r.Intn(5) == 0 {
		// the file ends in something other than a newline after its last tag
		s := strings.TrimRight(sb.String(), "\n")
		return s + []string{"", "\n"}[r.Intn(2)] + Postludes[r.Intn(len(Postludes))]
	}
	return sb.String()
}

// ExprSequence builds an expression input from atoms.
func ExprSequence(r *simrt.RNG, n int) string {
	var sb strings.Builder
	for i := 0; i < n; i++ {
		sb.WriteString(ExprAtoms[r.Intn(len(ExprAtoms))])
		if r.Intn(3) != 0 {
			sb.WriteString(" ")
		}
	}
	return sb.String()
}

// Pump repeats one token many times inside a plausible context.
func Pump(r *simrt.RNG, size int) (string, string) {
	unit := Tags[r.Intn(len(Tags))]
	if len(unit) == 0 {
		unit = "x"
	}
	var sb strings.Builder
	ctx := r.Intn(3)
	switch ctx {
	case 1:
		sb.WriteString("{namespace a.b}\n/** @param x */\n{template .t}\n")
	case 2:
		sb.WriteString("{namespace a.b}\n/** @param x */\n{template .t}\n{$x + ")
	}
	for sb.Len() < size {
		sb.WriteString(unit)
	}
	return sb.String(), "pump"
}

// PumpPair returns the same pumped input at size and at 4*size (same context, same repeated token).
func PumpPair(r *simrt.RNG, size int) (small, big, kind string) {
	unit := Tags[r.Intn(len(Tags))]
	if r.Intn(3) == 0 {
		unit = []string{"src/* ", "a//b ", "{$x} /* c */ ", "'s' ", "{call .t}{param a: 1 /}{/call}", "{msg desc=\"d\"}<b>x</b>{$x}{/msg}", "{literal}x{/literal}", "\n\n  \n", "<a href=\"u\">{$x}</a>", "{if $x}{$x}{/if}", "{@param x: ?}"}[r.Intn(11)]
	}
	if len(unit) == 0 {
		unit = "x"
	}
	prefix := ""
	if r.Intn(6) == 0 {
		// one soydoc block with very many @param lines
		// (every line names another param: a duplicate would end the parse at once)
		u := []string{" * @param p%d\n", " * @param? q%d some words\n", " * text %d\n"}[r.Intn(3)]
		return pumpBuild("{namespace a.b}\n/**\n", u, size), pumpBuild("{namespace a.b}\n/**\n", u, 4*size), "pump-soydoc"
	}
	switch r.Intn(4) {
	case 1:
		prefix = "{namespace a.b}\n/** @param x */\n{template .t}\n"
	case 2:
		prefix = "{namespace a.b}\n/** @param x */\n{template .t}\n{$x + "
	case 3:
		prefix = "{namespace a.b}\n/** @param x */\n{template .t}\n{msg desc=\"d\"}"
	}
	build := func(n int) string {
		var sb strings.Builder
		sb.WriteString(prefix)
		for sb.Len() < n {
			sb.WriteString(unit)
		}
		return sb.String()
	}
	return build(size), build(4 * size), "pump"
}

// RandomBytes returns n random bytes (including invalid UTF-8), biased towards Soy punctuation.
func RandomBytes(r *simrt.RNG, n int) string {
	const punct = "{}/$.|:,'\"\\ \n*@?[]()=-+<>!"
	b := make([]byte, n)
	for i := range b {
		if r.Intn(3) == 0 {
			b[i] = punct[r.Intn(len(punct))]
		} else {
			b[i] = byte(r.Intn(256))
		}
	}
	return string(b)
}

func pumpBuild(prefix, unit string, n int) string {
	var sb strings.Builder
	sb.WriteString(prefix)
	for i := 0; sb.Len() < n; i++ {
		if strings.Contains(unit, "%d") {
			fmt.Fprintf(&sb, unit, i)
		} else {
			sb.WriteString(unit)
		}
	}
	return sb.String()
}
