// Package digest computes structural digests of arbitrary Go values by reflection, including
// unexported fields, without ever calling Interface() on them.  Pointer identity is respected
// (shared and cyclic structures hash by their shape), map entries are hashed order-independently,
// func and chan values hash by identity.
package digest

import (
	"math"
	"reflect"
	"sort"
)

type hasher struct {
	h       uint64
	visited map[uintptr]int
	n       int64
}

func (x *hasher) w(v uint64) {
	x.h ^= v
	x.h *= 1099511628211
	x.h ^= x.h >> 29
}

func (x *hasher) str(s string) {
	x.w(uint64(len(s)))
	for i := 0; i < len(s); i++ {
		x.h ^= uint64(s[i])
		x.h *= 1099511628211
	}
}

// Of returns the digest of the given values.
func Of(vals ...interface{}) uint64 {
	x := &hasher{h: 14695981039346656037, visited: map[uintptr]int{}}
	for _, v := range vals {
		x.value(reflect.ValueOf(v), 0)
	}
	return x.h
}

// Nodes returns the digest and the number of values visited.
func Nodes(vals ...interface{}) (uint64, int64) {
	x := &hasher{h: 14695981039346656037, visited: map[uintptr]int{}}
	for _, v := range vals {
		x.value(reflect.ValueOf(v), 0)
	}
	return x.h, x.n
}

func (x *hasher) value(v reflect.Value, depth int) {
	x.n++
	if !v.IsValid() {
		x.w(0xdead)
		return
	}
	if depth > 10000 {
		x.w(0xdeeb)
		return
	}
	k := v.Kind()
	x.w(uint64(k) + 0x100)
	switch k {
	case reflect.Bool:
		if v.Bool() {
			x.w(1)
		} else {
			x.w(2)
		}
	case reflect.Int, reflect.Int8, reflect.Int16, reflect.Int32, reflect.Int64:
		x.w(uint64(v.Int()))
	case reflect.Uint, reflect.Uint8, reflect.Uint16, reflect.Uint32, reflect.Uint64, reflect.Uintptr:
		x.w(v.Uint())
	case reflect.Float32, reflect.Float64:
		x.w(math.Float64bits(v.Float()))
	case reflect.Complex64, reflect.Complex128:
		c := v.Complex()
		x.w(math.Float64bits(real(c)))
		x.w(math.Float64bits(imag(c)))
	case reflect.String:
		x.str(v.String())
	case reflect.Ptr:
		if v.IsNil() {
			x.w(0x11)
			return
		}
		p := v.Pointer()
		if id, ok := x.visited[p]; ok {
			x.w(0x12)
			x.w(uint64(id))
			return
		}
		x.visited[p] = len(x.visited) + 1
		x.value(v.Elem(), depth+1)
	case reflect.Interface:
		if v.IsNil() {
			x.w(0x13)
			return
		}
		x.str(v.Elem().Type().String())
		x.value(v.Elem(), depth+1)
	case reflect.Struct:
		n := v.NumField()
		x.w(uint64(n))
		for i := 0; i < n; i++ {
			x.value(v.Field(i), depth+1)
		}
	case reflect.Slice:
		if v.IsNil() {
			x.w(0x14)
			return
		}
		x.w(uint64(v.Len()))
		if v.Type().Elem().Kind() == reflect.Uint8 {
			for i := 0; i < v.Len(); i++ {
				x.h ^= v.Index(i).Uint()
				x.h *= 1099511628211
			}
			return
		}
		for i := 0; i < v.Len(); i++ {
			x.value(v.Index(i), depth+1)
		}
	case reflect.Array:
		for i := 0; i < v.Len(); i++ {
			x.value(v.Index(i), depth+1)
		}
	case reflect.Map:
		if v.IsNil() {
			x.w(0x15)
			return
		}
		x.w(uint64(v.Len()))
		// deterministic order: entries sorted by the digest of their key (own visited set), then
		// hashed in that order with the shared visited set
		type ent struct {
			kh uint64
			v  reflect.Value
		}
		var ents []ent
		it := v.MapRange()
		for it.Next() {
			sub := &hasher{h: 14695981039346656037, visited: map[uintptr]int{}}
			sub.value(it.Key(), depth+1)
			x.n += sub.n
			ents = append(ents, ent{sub.h, it.Value()})
		}
		sort.SliceStable(ents, func(i, j int) bool { return ents[i].kh < ents[j].kh })
		for _, e := range ents {
			x.w(e.kh)
			x.value(e.v, depth+1)
		}
	case reflect.Func, reflect.Chan, reflect.UnsafePointer:
		if v.IsNil() {
			x.w(0x16)
			return
		}
		x.w(uint64(v.Pointer()))
	default:
		x.w(0x17)
	}
}
