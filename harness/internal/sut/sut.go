// Package sut wraps the public API of soy for the harness: compile a generated case, render,
// generate JS, install the harness's extension functions and directives.
package sut

import (
	"fmt"
	"io"
	"os"
	"runtime/debug"

	"github.com/robfig/soy"
	"github.com/robfig/soy/ast"
	"github.com/robfig/soy/data"
	"github.com/robfig/soy/soyhtml"
	"github.com/robfig/soy/soyjs"
	"github.com/robfig/soy/soymsg"
	"github.com/robfig/soy/template"
	"verif/harness/internal/faults"
	"verif/harness/internal/gen"
	"verif/harness/internal/pparse"
	"verif/simrt"
)

// Injector is consulted by the vfail function and directive.
var Injector *faults.Injector

var installed bool

// InstallExtensions registers the harness's function and directives in soy's public
// registries (done once, before any concurrent use, as an application would at start-up).
func InstallExtensions() {
	if installed {
		return
	}
	installed = true
	soyhtml.Funcs["vfail"] = soyhtml.Func{Apply: faults.VFailFunc(&Injector), ValidArgLengths: []int{1}}
	soyhtml.PrintDirectives["vfail"] = soyhtml.PrintDirective{Apply: faults.VFailDirective(&Injector), ValidArgLengths: []int{0}}
	soyhtml.PrintDirectives["vbang"] = soyhtml.PrintDirective{Apply: func(v data.Value, _ []data.Value) data.Value {
		return data.String(v.String() + "!")
	}, ValidArgLengths: []int{0}}
	soyhtml.PrintDirectives["vq"] = soyhtml.PrintDirective{Apply: func(v data.Value, _ []data.Value) data.Value {
		return data.String("?" + v.String())
	}, ValidArgLengths: []int{0}, CancelAutoescape: true}
	soyjs.Funcs["vfail"] = soyjs.Func{Name: "vfail", Apply: func(js soyjs.JSWriter, args []ast.Node) {
		js.Write("vfail(", args[0], ")")
	}, ValidArgLengths: []int{1}}
	// vpush(list, x) is written the way an application would write it: append to the argument
	soyhtml.Funcs["vpush"] = soyhtml.Func{Apply: func(args []data.Value) data.Value {
		if l, ok := args[0].(data.List); ok {
			return append(l, args[1])
		}
		return args[0]
	}, ValidArgLengths: []int{2}}
	soyjs.Funcs["vpush"] = soyjs.Func{Name: "vpush", Apply: func(js soyjs.JSWriter, args []ast.Node) {
		js.Write("vpush(", args[0], ", ", args[1], ")")
	}, ValidArgLengths: []int{2}}
	SetMode("A")
	soyjs.Funcs["vmode"] = soyjs.Func{Name: "vmode", Apply: func(js soyjs.JSWriter, args []ast.Node) { js.Write("vmode()") }, ValidArgLengths: []int{0}}
	// vwrap:[a, b] wraps the value in the elements of its list argument
	soyhtml.PrintDirectives["vwrap"] = soyhtml.PrintDirective{Apply: func(v data.Value, args []data.Value) data.Value {
		out := v.String()
		if l, ok := args[0].(data.List); ok {
			for _, e := range l {
				out = e.String() + out + e.String()
			}
		}
		return data.String(out)
	}, ValidArgLengths: []int{1}}
	soyjs.PrintDirectives["vwrap"] = soyjs.PrintDirective{Name: "vwrap"}
	soyjs.PrintDirectives["vfail"] = soyjs.PrintDirective{Name: "vfail"}
	soyjs.PrintDirectives["vbang"] = soyjs.PrintDirective{Name: "vbang"}
	soyjs.PrintDirectives["vq"] = soyjs.PrintDirective{Name: "vq", CancelAutoescape: true}
}

// SetMode re-registers the function vmode() so that it returns "mode-<m>": the application
// replaces an entry of soyhtml.Funcs between renders (a new Func value each time, as reconfiguring
// the registry does).
func SetMode(m string) {
	soyhtml.Funcs["vmode"] = soyhtml.Func{Apply: func([]data.Value) data.Value { return data.String("mode-" + m) }, ValidArgLengths: []int{0}}
}

// SetObligatory configures the obligatory print directives.
func SetObligatory(names []string) {
	soyhtml.ObligatoryPrintDirectiveNames = append([]string{}, names...)
}

// Compiled is a compiled case.
type Compiled struct {
	Case   *gen.Case
	Bundle *soy.Bundle
	Reg    *template.Registry
	Tofu   *soyhtml.Tofu
	Msgs   []*ast.MsgNode
}

// NewBundle builds the soy.Bundle of a case (files in the given order; nil = natural order).
func NewBundle(c *gen.Case, order []int) *soy.Bundle {
	b := soy.NewBundle()
	if order == nil {
		for _, f := range c.Files {
			b.AddTemplateString(f.Name, f.Source())
		}
	} else {
		for _, i := range order {
			b.AddTemplateString(c.Files[i].Name, c.Files[i].Source())
		}
	}
	if SharedGlobals != nil {
		// one globals map handed to several bundles (an application-wide configuration map)
		b.AddGlobalsMap(SharedGlobals)
	}
	if len(c.Globals) > 0 {
		switch {
		case c.GlobalsSplit:
			// two sources; the maps are the application's own objects, the same for every bundle of the case
			m1, m2 := c.HeldGlobals()
			b.AddGlobalsMap(m1)
			if len(m2) > 0 {
				b.AddGlobalsMap(m2)
			}
		case GlobalsAsFile || c.GlobalsFile:
			b.AddGlobalsFile(globalsFile(c))
		default:
			b.AddGlobalsMap(c.GlobalsMap())
		}
	}
	return b
}

// GlobalsAsFile makes NewBundle hand the case's globals over through AddGlobalsFile (a file
// written under the system's temporary directory, removed by Cleanup) instead of AddGlobalsMap.
var GlobalsAsFile bool

// tempFiles is touched only by single-task harnesses (cases with GlobalsFile are generated for
// C13 alone): no lock, which would order the tasks of a concurrent harness.
var tempFiles []string

func globalsFile(c *gen.Case) string {
	f, err := os.CreateTemp("", "verif-globals-*.txt")
	if err != nil {
		panic("harness: " + err.Error())
	}
	defer f.Close()
	for _, kv := range c.Globals {
		fmt.Fprintf(f, "%s = %s\n", kv.K, kv.V.Literal())
	}
	tempFiles = append(tempFiles, f.Name())
	return f.Name()
}

// Cleanup removes the temporary files written by NewBundle.
func Cleanup() {
	for _, f := range tempFiles {
		os.Remove(f)
	}
	tempFiles = nil
}

// SharedGlobals, if set, is added to every bundle built by NewBundle before the case's own globals.
var SharedGlobals data.Map

// Compile compiles the case.
func Compile(c *gen.Case) (*Compiled, error) {
	return CompileOrder(c, nil)
}

// CompileInSim compiles the case as a simulation of its own when none is running, so that the
// scanner goroutines are tasks that have provably finished before it returns.
func CompileInSim(c *gen.Case) (cc *Compiled, err error) {
	if simrt.Active() {
		return Compile(c)
	}
	res := simrt.Run(simrt.Config{Budget: 500_000_000}, func() { cc, err = Compile(c) })
	if res.Budget || res.Deadlock || res.MainPanic != nil {
		return nil, fmt.Errorf("compile did not finish normally in the simulator (budget=%v deadlock=%v panic=%v)", res.Budget, res.Deadlock, res.MainPanic != nil)
	}
	return cc, err
}

// CompileOrder compiles with an explicit file insertion order.
func CompileOrder(c *gen.Case, order []int) (*Compiled, error) {
	cc, _, err := CompileBundle(c, order)
	return cc, err
}

// CompileBundle is CompileOrder that also returns the soy.Bundle when compilation fails.
func CompileBundle(c *gen.Case, order []int) (*Compiled, *soy.Bundle, error) {
	b := NewBundle(c, order)
	reg, err := b.Compile()
	if err != nil {
		return nil, b, err
	}
	out := &Compiled{Case: c, Bundle: b, Reg: reg, Tofu: soyhtml.NewTofu(reg)}
	for _, t := range reg.Templates {
		faults.WalkMsgs(t.Node, func(m *ast.MsgNode) { out.Msgs = append(out.Msgs, m) })
	}
	return out, b, nil
}

// Escape describes a panic that escaped a soy entry point.
type Escape struct {
	Value string
	Site  string
	Stack string
}

// Render executes one template; a panic escaping soy is returned as esc.
func (c *Compiled) Render(w io.Writer, name string, d, ij data.Map, msgs soymsg.Bundle) (err error, esc *Escape) {
	defer func() {
		if r := recover(); r != nil {
			if simrt.IsAbort(r) {
				panic(r)
			}
			st := string(debug.Stack())
			esc = &Escape{Value: fmt.Sprint(r), Site: pparse.SoySite(st), Stack: st}
		}
	}()
	rd := c.Tofu.NewRenderer(name)
	if ij != nil {
		rd.Inject(ij)
	}
	if msgs != nil {
		rd.WithMessages(msgs)
	}
	err = rd.Execute(w, d)
	return err, nil
}

// WriteJS generates the JavaScript of file index i.
func (c *Compiled) WriteJS(w io.Writer, i int, es6 bool, msgs soymsg.Bundle) (err error, esc *Escape) {
	defer func() {
		if r := recover(); r != nil {
			if simrt.IsAbort(r) {
				panic(r)
			}
			st := string(debug.Stack())
			esc = &Escape{Value: fmt.Sprint(r), Site: pparse.SoySite(st), Stack: st}
		}
	}()
	if i < 0 || i >= len(c.Reg.SoyFiles) {
		return fmt.Errorf("no such file"), nil
	}
	opts := soyjs.Options{Messages: msgs}
	if es6 {
		opts.Formatter = &soyjs.ES6Formatter{}
	}
	return soyjs.Write(w, c.Reg.SoyFiles[i], opts), nil
}
