//go:build !race

package simrt

import "unsafe"

// RaceBuild reports whether the race detector is compiled in.
const RaceBuild = false

func raceDisable() {}
func raceEnable()  {}

func raceAcquire(unsafe.Pointer) {}

func raceReleaseMerge(unsafe.Pointer) {}
