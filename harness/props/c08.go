package props

import (
	"bytes"
	"encoding/json"
	"fmt"
	"io"
	"strconv"
	"strings"

	"github.com/robfig/soy/data"
	"github.com/robfig/soy/parse"
	"github.com/robfig/soy/soyhtml"
	"github.com/robfig/soy/soyjs"
	"github.com/robfig/soy/soymsg"
	"verif/harness/internal/digest"
	"verif/harness/internal/faults"
	"verif/harness/internal/gen"
	"verif/harness/internal/sut"
	"verif/harness/internal/wk"
	"verif/simrt"
)

// c08Op is one operation of a history.
type c08Op struct {
	Op       string `json:"op"` // render render-writerfault render-panic render-illtyped render-reused js genfile evalexpr recompile
	Template string `json:"template,omitempty"`
	Data     int    `json:"data,omitempty"`
	IJ       int    `json:"ij,omitempty"`
	Cat      int    `json:"cat"` // -1 none
	K        int    `json:"k,omitempty"`
	Kind     int    `json:"kind,omitempty"`
	File     int    `json:"file,omitempty"`
	ES6      bool   `json:"es6,omitempty"`
	Expr     string `json:"expr,omitempty"`
}

// c08Hist is one history over one compiled bundle.
type c08Hist struct {
	Bundle     *gen.Case `json:"bundle"`
	Obligatory []string  `json:"obligatory,omitempty"`
	Ops        []c08Op   `json:"ops"`
}

// illTyped derives an ill-typed variant of a data set: every value is replaced by one of another type.
func illTyped(d gen.DVal, salt int) gen.DVal {
	out := gen.DVal{T: "map"}
	for i, kv := range d.M {
		var v gen.DVal
		switch (i + salt) % 6 {
		case 0:
			v = gen.DVal{T: "str", S: "<ill>"}
		case 1:
			v = gen.DVal{T: "int", I: 7}
		case 2:
			v = gen.DVal{T: "list", L: []gen.DVal{{T: "null"}, {T: "str", S: "x"}}}
		case 3:
			v = gen.DVal{T: "null"}
		case 4:
			v = gen.DVal{T: "map", M: []gen.KV{{K: "zz", V: gen.DVal{T: "float", F: 0.5}}}}
		default:
			v = kv.V
		}
		out.M = append(out.M, gen.KV{K: kv.K, V: v})
	}
	return out
}

// c08Case is the replay case of C08: every history this worker process executed, in order, up to
// and including the failing one.  State that lives in the process rather than in one bundle
// (package-level caches, free lists) is thereby part of the replay; the minimiser drops the
// histories that do not matter.
type c08Case struct {
	Histories []*c08Hist `json:"histories"`
}

type c08State struct {
	cs       *c08Hist
	cc       *sut.Compiled
	data     []data.Map
	ill      []data.Map
	nild     []data.Map  // hand-built data with Go nils inside
	structs  []*poolData // the data sets as Go structs, rendered through Tofu.Render (by pointer)
	edits    []int       // how many times the caller has edited structs[i] in place
	mode     string      // what vmode() currently returns ("A" or "B")
	ij       []data.Map
	cats     map[int]soymsg.Bundle
	reused   map[string]*soyhtml.Renderer
	model    map[string]modelOut
	counters map[string]int64
}

// c08LastOuts holds, for the history executed last, the observation of every un-faulted render
// (operation index -> output and error presence); the cross-process oracle compares them.
var c08LastOuts map[int]string

type modelOut struct {
	out []byte
	err bool
	esc bool
}

func (st *c08State) cat(kind int) soymsg.Bundle {
	if kind < 0 {
		return nil
	}
	b := st.cats[kind]
	if b == nil {
		b = faults.Catalogue(kind, st.cc.Msgs)
		st.cats[kind] = b
	}
	return b
}

// modelRender is the reference model: the same render as the first operation on a freshly
// compiled bundle with pristine data.
func (st *c08State) modelRender(op c08Op, ill bool) (modelOut, error) {
	tofu := strings.HasPrefix(op.Op, "render-tofu")
	nils := strings.HasSuffix(op.Op, "-nils")
	key := fmt.Sprintf("%s|%d|%d|%d|%v|%v|%v", op.Template, op.Data, op.IJ, op.Cat, ill, tofu, nils)
	if op.Op == "render-struct" {
		// the model renders a struct built afresh from the pristine data with the caller's edits applied
		key += fmt.Sprintf("|struct%d", st.edits[op.Data])
		if m, ok := st.model[key]; ok {
			return m, nil
		}
		cc, err := sut.Compile(st.cs.Bundle)
		if err != nil {
			return modelOut{}, err
		}
		p := toPoolData(st.cs.Bundle.Data[op.Data])
		for k := 0; k < st.edits[op.Data]; k++ {
			editStruct(p, k)
		}
		var buf bytes.Buffer
		rerr, esc := structRender(cc, &buf, op.Template, p)
		m := modelOut{out: buf.Bytes(), err: rerr != nil, esc: esc != nil}
		st.model[key] = m
		return m, nil
	}
	if m, ok := st.model[key]; ok {
		return m, nil
	}
	cc, err := sut.Compile(st.cs.Bundle)
	if err != nil {
		return modelOut{}, err
	}
	d := st.cs.Bundle.Data[op.Data]
	if ill {
		d = illTyped(d, op.Data)
	}
	var cat soymsg.Bundle
	if op.Cat >= 0 {
		cat = faults.Catalogue(op.Cat, cc.Msgs)
	}
	var buf bytes.Buffer
	saved := sut.Injector
	sut.Injector = nil
	dm := d.Map()
	if nils {
		dm = withNils(dm)
	}
	var rerr error
	var esc *sut.Escape
	if tofu {
		rerr, esc = tofuRender(cc, &buf, op.Template, dm)
	} else {
		rerr, esc = cc.Render(&buf, op.Template, dm, st.cs.Bundle.IJ[op.IJ].Map(), cat)
	}
	sut.Injector = saved
	m := modelOut{out: buf.Bytes(), err: rerr != nil, esc: esc != nil}
	st.model[key] = m
	return m, nil
}

// editStruct is the k-th in-place edit the caller makes to its own struct value between renders.
func editStruct(p *poolData, k int) {
	// one kind of edit at a time: an element of a slice (the slice header, and so a shallow copy of
	// the struct, stays the same), an element of a slice of structs, a field
	switch k % 4 {
	case 0:
		if len(p.Xs) > 0 {
			p.Xs[k%len(p.Xs)] = int64(100 + k)
		}
	case 1:
		if len(p.Ss) > 0 {
			p.Ss[0] = "edited" + strconv.Itoa(k)
		}
	case 2:
		if len(p.Ms) > 0 {
			p.Ms[0].A = int64(k)
			p.Ms[0].B = "ms-edited" + strconv.Itoa(k)
		}
	default:
		p.M.B = "m-edited" + strconv.Itoa(k)
		p.A = int64(k)
	}
}

// structRender renders a Go struct (by pointer) through Tofu.Render.
func structRender(cc *sut.Compiled, w io.Writer, name string, p *poolData) (err error, esc *sut.Escape) {
	defer func() {
		if r := recover(); r != nil {
			if simrt.IsAbort(r) {
				panic(r)
			}
			esc = &sut.Escape{Value: fmt.Sprint(r), Site: "Tofu.Render"}
		}
	}()
	return cc.Tofu.Render(w, name, p), nil
}

// withNils returns the data map with Go nils put where a hand-built data.Map may have them: an
// optional value, an element of a list, a field of the nested map.
func withNils(m data.Map) data.Map {
	if _, ok := m["o"]; ok {
		m["o"] = nil
	}
	if l, ok := m["ss"].(data.List); ok {
		m["ss"] = append(l[:len(l):len(l)], nil)
	}
	if mm, ok := m["m"].(data.Map); ok {
		mm["c"] = nil
	}
	m["unused"] = nil
	return m
}

// tofuRender renders through Tofu.Render (no injected data, no catalogue).
func tofuRender(cc *sut.Compiled, w io.Writer, name string, d data.Map) (err error, esc *sut.Escape) {
	defer func() {
		if r := recover(); r != nil {
			if simrt.IsAbort(r) {
				panic(r)
			}
			esc = &sut.Escape{Value: fmt.Sprint(r), Site: "Tofu.Render"}
		}
	}()
	return cc.Tofu.Render(w, name, d), nil
}

type c08Digests struct{ data, ij, reg, bundle, globals, cats uint64 }

func (st *c08State) digests() c08Digests {
	var d c08Digests
	d.data = digest.Of(st.data, st.ill, st.nild)
	d.ij = digest.Of(st.ij)
	d.reg = digest.Of(st.cc.Reg)
	d.bundle = digest.Of(st.cc.Bundle)
	d.globals = digest.Of(soyhtml.Funcs, soyhtml.PrintDirectives, soyhtml.ObligatoryPrintDirectiveNames, soyhtml.Logger,
		soyjs.Funcs, soyjs.PrintDirectives, data.DefaultStructOptions)
	var cs []interface{}
	for k := 0; k <= faults.KindPO; k++ {
		if b := st.cats[k]; b != nil {
			if stub, ok := b.(*faults.Bundle); ok {
				cs = append(cs, k, stub.Msgs) // not the stub's own call counters
			} else {
				cs = append(cs, k, b)
			}
		}
	}
	d.cats = digest.Of(cs...)
	return d
}

func (a c08Digests) diff(b c08Digests) string {
	switch {
	case a.reg != b.reg:
		return "compiled templates (registry / syntax tree)"
	case a.data != b.data:
		return "caller data map"
	case a.ij != b.ij:
		return "injected data map"
	case a.cats != b.cats:
		return "message bundle"
	case a.bundle != b.bundle:
		return "soy.Bundle"
	case a.globals != b.globals:
		return "process-wide registries"
	}
	return ""
}

func validEntry(c *gen.Case, op c08Op) bool {
	return op.Data >= 0 && op.Data < len(c.Data) && op.IJ >= 0 && op.IJ < len(c.IJ) && op.Cat <= faults.KindPO
}

// c08Exec runs a history and applies the invariants after every operation.
func c08Exec(cs *c08Hist, counters map[string]int64) (*wk.Failure, int) {
	sut.InstallExtensions()
	sut.SetObligatory(cs.Obligatory)
	defer sut.SetObligatory(nil)
	c08LastOuts = map[int]string{}
	mk := func(class, site, detail string) *wk.Failure {
		return &wk.Failure{Class: class, Site: site, Detail: detail} // the caller attaches the process log as replay
	}
	cc, err := sut.Compile(cs.Bundle)
	if err != nil {
		return &wk.Failure{Class: "invalid-case", Detail: err.Error()}, 0
	}
	sut.SetMode("A")
	defer sut.SetMode("A")
	st := &c08State{mode: "A", cs: cs, cc: cc, cats: map[int]soymsg.Bundle{}, reused: map[string]*soyhtml.Renderer{}, model: map[string]modelOut{}, counters: counters}
	for i, d := range cs.Bundle.Data {
		st.data = append(st.data, d.Map())
		st.ill = append(st.ill, illTyped(d, i).Map())
		st.nild = append(st.nild, withNils(d.Map()))
		st.structs = append(st.structs, toPoolData(d))
		st.edits = append(st.edits, 0)
	}
	for _, d := range cs.Bundle.IJ {
		st.ij = append(st.ij, d.Map())
	}
	// catalogues are built up front so that their digest is taken before the first operation
	for _, op := range cs.Ops {
		if op.Cat >= 0 && op.Cat <= faults.KindPO {
			st.cat(op.Cat)
		}
	}
	pre := st.digests()
	done := 0
	for i, op := range cs.Ops {
		if !validEntry(cs.Bundle, op) {
			return &wk.Failure{Class: "invalid-case", Detail: "op refers to missing data"}, done
		}
		what := fmt.Sprintf("op %d (%s %s)", i, op.Op, op.Template)
		counters["op_"+op.Op]++
		if op.Op == "swap-func" {
			// the application re-registers one of its functions between two renders
			if st.mode == "A" {
				st.mode = "B"
			} else {
				st.mode = "A"
			}
			sut.SetMode(st.mode)
			st.model = map[string]modelOut{} // the model is a function of the registries too
			pre = st.digests()
			done++
			continue
		}
		if op.Op == "edit-struct" {
			// the caller changes its own data in place; what it renders next must show it
			editStruct(st.structs[op.Data], st.edits[op.Data])
			st.edits[op.Data]++
			done++
			continue
		}
		switch op.Op {
		case "render", "render-reused", "render-illtyped", "render-writerfault", "render-panic", "render-tofu", "render-nils", "render-tofu-nils", "render-struct":
			ill := op.Op == "render-illtyped"
			m, err := st.modelRender(op, ill)
			if err != nil {
				return &wk.Failure{Class: "invalid-case", Detail: err.Error()}, done
			}
			d := st.data[op.Data]
			if ill {
				d = st.ill[op.Data]
			}
			if strings.HasSuffix(op.Op, "-nils") {
				d = st.nild[op.Data]
			}
			w := faults.NewWriter()
			if op.Op == "render-writerfault" {
				w.FailCall = 1 + op.K
				w.Sticky = op.Kind%2 == 0
			}
			sut.Injector = nil
			if op.Op == "render-panic" {
				sut.Injector = &faults.Injector{At: 1 + op.K, Kind: faults.PanicKind(op.Kind % int(faults.NumPanicKinds))}
			}
			var rerr error
			var esc *sut.Escape
			if op.Op == "render-reused" {
				rd := st.reused[op.Template]
				if rd == nil {
					rd = cc.Tofu.NewRenderer(op.Template)
					st.reused[op.Template] = rd
				}
				// the same Renderer value is configured and executed again and again
				if op.Cat >= 0 {
					rd.WithMessages(st.cat(op.Cat))
				} else {
					rd.WithMessages(nil)
				}
				rd.Inject(st.ij[op.IJ])
				rerr = rd.Execute(w, d)
			} else if op.Op == "render-struct" {
				rerr, esc = structRender(cc, w, op.Template, st.structs[op.Data])
			} else if strings.HasPrefix(op.Op, "render-tofu") {
				rerr, esc = tofuRender(cc, w, op.Template, d)
			} else {
				rerr, esc = cc.Render(w, op.Template, d, st.ij[op.IJ], st.cat(op.Cat))
			}
			fired := sut.Injector != nil && sut.Injector.Fired
			sut.Injector = nil
			if esc != nil {
				counters["escaped_panics_left_to_C06"]++
			}
			if rerr != nil {
				counters["failed_renders"]++
			}
			if w.Failed > 0 {
				counters["fault_fired_writer"]++
			}
			if fired {
				counters["fault_fired_panic_"+faults.PanicKind(op.Kind%int(faults.NumPanicKinds)).String()]++
			}
			faulted := w.Failed > 0 || fired || esc != nil
			if !faulted {
				counters["renders_compared_with_model"]++
				if rerr == nil && len(w.Accepted) > 0 {
					counters["renders_compared_with_output"]++
				}
				c08LastOuts[i] = fmt.Sprintf("%v|%x", rerr != nil, wk.FNV(string(w.Accepted)))
			}
			switch {
			case esc != nil && !fired && w.Failed == 0 && !m.esc:
				// nothing was injected, the same render on a fresh bundle does not panic: the panic is a
				// product of the history
				return mk("output", "render panics depending on history",
					fmt.Sprintf("%s: a panic escaped (%s) although the same render on a freshly compiled bundle returns normally, after %d earlier operations", what, trunc(esc.Value, 200), i)), done
			case w.Failed > 0 && !fired && esc == nil && rerr == nil:
				// C12's statement holds for the n-th render of a bundle as for the first
				return mk("output", "failed write not reported by a later render of the bundle",
					fmt.Sprintf("%s: the writer failed at call %d but the render returned nil, after %d earlier operations on the same bundle", what, w.FirstFailCall, i)), done
			case !faulted && !bytes.Equal(w.Accepted, m.out):
				return mk("output", "render output depends on history",
					fmt.Sprintf("%s: output differs from the same render on a freshly compiled bundle after %d earlier operations:\n got %q\nwant %q", what, i, trunc(string(w.Accepted), 200), trunc(string(m.out), 200))), done
			case !faulted && (rerr != nil) != m.err:
				return mk("output", "render error presence depends on history",
					fmt.Sprintf("%s: error presence %v differs from the fresh-compile model %v after %d earlier operations (%v)", what, rerr != nil, m.err, i, rerr)), done
			case faulted && !m.err && !m.esc && !bytes.HasPrefix(m.out, w.Accepted[:prefixLen(w)]):
				return mk("output", "faulted render wrote bytes that are not a prefix of the model output",
					fmt.Sprintf("%s: accepted %q is not a prefix of %q", what, trunc(string(w.Accepted), 200), trunc(string(m.out), 200))), done
			}
		case "js":
			var buf bytes.Buffer
			jerr, esc := cc.WriteJS(&buf, op.File%len(cc.Reg.SoyFiles), op.ES6, st.cat(op.Cat))
			if esc != nil {
				counters["escaped_panics_left_to_C06"]++
			} else if jerr == nil && buf.Len() > 0 {
				counters["completed_js"]++
			}
		case "genfile":
			f := cc.Reg.SoyFiles[op.File%len(cc.Reg.SoyFiles)]
			func() {
				defer func() { recover() }()
				if soyjs.NewGenerator(cc.Reg).WriteFile(io.Discard, f.Name) == nil {
					counters["completed_genfile"]++
				}
			}()
		case "evalexpr":
			func() {
				defer func() { recover() }()
				if n, err := parse.Expr(op.Expr); err == nil {
					if _, err := soyhtml.EvalExpr(n); err == nil {
						counters["completed_evalexpr"]++
					}
				}
			}()
		case "recompile":
			func() {
				defer func() { recover() }()
				if _, err := cc.Bundle.Compile(); err == nil {
					counters["completed_recompile"]++
				}
			}()
		default:
			return &wk.Failure{Class: "invalid-case", Detail: "unknown op " + op.Op}, done
		}
		done++
		post := st.digests()
		if part := pre.diff(post); part != "" {
			return mk("digest", part+" modified by "+op.Op,
				fmt.Sprintf("%s changed the structural digest of the %s (rendering and code generation must leave it untouched)", what, part)), done
		}
	}
	return nil, done
}

func prefixLen(w *faults.Writer) int {
	if w.Failed > 0 {
		return w.AcceptedBeforeFirstFail
	}
	return len(w.Accepted)
}

func c08Opts() gen.Opts {
	o := gen.DefaultOpts()
	o.Directives = []string{"|vfail", "|vq", "|vwrap"}
	o.Funcs = []string{"vfail"}
	o.ListFuncs = []string{"vpush"}
	o.ModeFunc = true
	return o
}

// c08OptsFor adds the case's focus feature.
func c08OptsFor(seed uint64) gen.Opts {
	o := c08Opts()
	o.Focus = gen.FocusFor(seed)
	o.ParamNamedLocals = simrt.NewRNG(seed^0x9a4a).Intn(4) == 0
	return o
}

// c08History draws a history over the case.
func c08History(r *simrt.RNG, gc *gen.Case, maxLen int) *c08Hist {
	cs := &c08Hist{Bundle: gc}
	switch r.Intn(4) {
	case 1:
		cs.Obligatory = []string{"vbang"}
	case 2:
		cs.Obligatory = []string{"vq", "vbang"}
	}
	n := 2 + r.Intn(maxLen-1)
	// histories revisit a few entries often: that is where carried-over state shows
	var hot []gen.Entry
	for i := 0; i < 3 && len(gc.Entries) > 0; i++ {
		hot = append(hot, gc.Entries[r.Intn(len(gc.Entries))])
	}
	catKind := -1
	if r.Intn(2) == 0 {
		catKind = []int{0, 1, 2, faults.KindPO, faults.KindPO}[r.Intn(5)]
	}
	alternate := r.Intn(3) == 0
	altCats := [2]int{[]int{-1, 0, 1, 2}[r.Intn(4)], []int{1, 0, faults.KindPO, faults.KindPO}[r.Intn(4)]} // (2 = a catalogue that lacks a third of the messages)
	for i := 0; i < n; i++ {
		e := hot[r.Intn(len(hot))]
		if r.Intn(4) == 0 {
			e = gc.Entries[r.Intn(len(gc.Entries))]
		}
		op := c08Op{Template: e.Template, Data: e.Data, IJ: e.IJ, Cat: catKind}
		if r.Intn(6) == 0 {
			op.Cat = r.Intn(faults.KindPO+2) - 1
		}
		if alternate {
			// the same templates under two locales (or with and without one) in one history
			op.Cat = altCats[r.Intn(2)]
		}
		switch x := r.Intn(100); {
		case x < 30:
			op.Op = "render"
		case x < 32:
			op.Op = "render-struct"
		case x < 34:
			// the caller renders its struct, changes it in place, renders it again
			op.Op = "render-struct"
			cs.Ops = append(cs.Ops, op)
			op.Op = "edit-struct"
			cs.Ops = append(cs.Ops, op)
			if r.Intn(2) == 0 {
				cs.Ops = append(cs.Ops, op) // two edits
			}
			op.Op = "render-struct"
		case x < 35:
			op.Op = "swap-func"
		case x < 36:
			op.Op = "render-tofu"
		case x < 38:
			op.Op = "render-nils"
		case x < 40:
			op.Op = "render-tofu-nils"
		case x < 50:
			op.Op = "render-reused"
		case x < 60:
			op.Op, op.K, op.Kind = "render-writerfault", r.Intn(12), r.Intn(2)
		case x < 72:
			op.Op, op.K, op.Kind = "render-panic", r.Intn(4), r.Intn(int(faults.NumPanicKinds))
		case x < 80:
			op.Op = "render-illtyped"
		case x < 88:
			op.Op, op.File, op.ES6 = "js", r.Intn(8), r.Intn(2) == 0
		case x < 91:
			op.Op, op.File = "genfile", r.Intn(8)
		case x < 95:
			op.Op, op.Expr = "evalexpr", []string{"1 + 2", "$a", "['a': 1]", "f(", "length([1])", "1 2"}[r.Intn(6)]
		default:
			op.Op = "recompile"
		}
		cs.Ops = append(cs.Ops, op)
	}
	return cs
}

// C08 is the worker entry point for property C08.
func C08(c *wk.Ctx) {
	var processLog []*c08Hist
	attach := func(f *wk.Failure) *wk.Failure {
		if f != nil && f.Class != "invalid-case" && f.Replay == nil {
			b, _ := json.Marshal(&c08Case{Histories: processLog})
			f.Replay = b
		}
		return f
	}
	runHist := func(cs *c08Hist, counters map[string]int64) (f *wk.Failure, done int, steps int64, budget bool) {
		processLog = append(processLog, cs)
		if c.Variant == "inst" || c.Variant == "race" {
			res := simrt.Run(simrt.Config{Budget: 200_000_000}, func() { f, done = c08Exec(cs, counters) })
			if res.Budget || res.Deadlock {
				return attach(&wk.Failure{Class: "budget", Site: SiteName(res.AbortSite), Detail: "history did not finish within the step budget (a C06 condition)"}), done, res.Steps, true
			}
			return attach(f), done, res.Steps, false
		}
		f, done = c08Exec(cs, counters)
		return attach(f), done, 0, false
	}
	LoadSites(c.Sites)
	if c.Mode == "replay" {
		var cs c08Case
		readReplay(c, &cs)
		u := wk.NewUnit(0)
		for _, h := range cs.Histories {
			if h == nil || h.Bundle == nil {
				u.AddFail(&wk.Failure{Class: "invalid-case", Detail: "empty history"})
				break
			}
			f, done, steps, _ := runHist(h, u.Counters)
			u.Evals += int64(done)
			u.Steps += steps
			if f != nil && f.Class == "invalid-case" {
				continue // a history made invalid by minimisation contributes nothing
			}
			u.AddFail(f)
		}
		if len(u.Fails) == 0 && len(cs.Histories) > 0 && c.Variant == "plain" {
			// the process clause: the last history against a fresh process
			mine := c08LastOuts
			if other, err := c.Child("oracle-replay", 0, ""); err == nil {
				last := cs.Histories[len(cs.Histories)-1]
				for i, o := range mine {
					if v, ok := other[fmt.Sprintf("op%d", i)]; ok && v != o && i < len(last.Ops) {
						u.AddFail(attach(&wk.Failure{Class: "output", Site: "process: render output depends on what the process did before",
							Detail: fmt.Sprintf("operation %d (%s %s) observed %s after the recorded histories and %s in a fresh process", i, last.Ops[i].Op, last.Ops[i].Template, o, v)}))
						break
					}
				}
			}
		}
		c.Emit(u)
		return
	}
	units, perUnit, maxLen := 800, 6, maxLenFor(c.Tier)
	if c.Tier == "thorough" {
		units = 40000
	}
	if c.Mode == "plan" {
		c.Emit(map[string]interface{}{"ev": "plan", "units": units, "histories_per_unit": perUnit, "max_history": maxLen})
		return
	}
	if c.Mode == "oracle" || c.Mode == "oracle-replay" {
		// a fresh process executes one history as the first thing it does and reports the observation of
		// every un-faulted render
		u := wk.NewUnit(c.Start)
		var h *c08Hist
		if c.Mode == "oracle-replay" {
			var cs c08Case
			readReplay(c, &cs)
			if n := len(cs.Histories); n > 0 {
				h = cs.Histories[n-1]
			}
		} else {
			var want int
			fmt.Sscanf(c.Extra, "%d", &want)
			r := simrt.NewRNG(c.UnitSeed(c.Start, 8))
			for hi := 0; hi <= want; hi++ {
				gc := gen.Generate(c.UnitSeed(c.Start, uint64(200+hi)), c08OptsFor(c.UnitSeed(c.Start, uint64(200+hi))))
				h = c08History(r, gc, maxLenFor(c.Tier))
			}
		}
		if h != nil && h.Bundle != nil {
			runHist(h, u.Counters)
			for i, o := range c08LastOuts {
				u.Observe(fmt.Sprintf("op%d", i), o)
			}
		}
		c.Emit(u)
		return
	}
	for run := c.Start; run < c.Start+c.Count && run < units; run++ {
		c.Begin(run)
		u := wk.NewUnit(run)
		r := simrt.NewRNG(c.UnitSeed(run, 8))
		var digest uint64
		for hi := 0; hi < perUnit; hi++ {
			gc := gen.Generate(c.UnitSeed(run, uint64(200+hi)), c08OptsFor(c.UnitSeed(run, uint64(200+hi))))
			cs := c08History(r, gc, maxLen)
			f, done, steps, budget := runHist(cs, u.Counters)
			if f == nil && !budget && (hi == 1 || hi == 4) && c.Variant == "plain" {
				// processes with different histories must agree: the same history as the first thing a
				// fresh process does
				mine := c08LastOuts
				other, err := c.Child("oracle", run, fmt.Sprint(hi))
				u.Counters["histories_compared_with_a_fresh_process"]++
				if err != nil {
					u.Trouble = err.Error()
				} else {
					for i, o := range mine {
						if v, ok := other[fmt.Sprintf("op%d", i)]; ok && v != o {
							f = attach(&wk.Failure{Class: "output", Site: "process: render output depends on what the process did before",
								Detail: fmt.Sprintf("operation %d (%s %s) of a history observed %s here and %s when the same history is the first thing a fresh process does", i, cs.Ops[i].Op, cs.Ops[i].Template, o, v)})
							break
						}
					}
				}
			}
			u.Evals += int64(done)
			u.Steps += steps
			digest = digest*1099511628211 ^ uint64(steps)<<1 ^ uint64(done)
			u.Counters["histories"]++
			if len(cs.Obligatory) > 0 {
				u.Counters["histories_with_obligatory_directives"]++
			}
			if f != nil && f.Class == "invalid-case" {
				u.Counters["generator_discards"]++
				continue
			}
			if budget {
				// the generated bundles terminate by construction: an operation of a history that exhausts the
				// step budget or blocks is reported (and the plain variant would hang on it for real)
				u.Counters["histories_cut_by_a_hang"]++
				u.AddFail(f)
				continue
			}
			u.AddFail(f)
			var h uint64
			for _, op := range cs.Ops {
				h = h*1099511628211 ^ wk.FNV(fmt.Sprint(op))
			}
			u.Hash("history", h^wk.FNV(gc.Skeleton()))
			if hi == 0 {
				u.Sample(1, map[string]interface{}{"ops": cs.Ops, "obligatory": cs.Obligatory, "files": len(gc.Files), "first_file": trunc(gc.Files[0].Source(), 300)})
			}
		}
		u.Observe("digest", fmt.Sprintf("%016x", digest))
		c.Emit(u)
	}
}

func maxLenFor(tier string) int {
	if tier == "thorough" {
		return 40
	}
	return 8
}
