package sut

import (
	"bytes"
	"fmt"
	"testing"

	"verif/harness/internal/gen"
)

func TestGeneratorValidity(t *testing.T) {
	InstallExtensions()
	fails, renders, rerr := 0, 0, 0
	errs := map[string]int{}
	N := 2000
	for seed := uint64(1); seed <= uint64(N); seed++ {
		c := gen.Generate(seed, gen.DefaultOpts())
		cc, err := Compile(c)
		if err != nil {
			fails++
			k := err.Error()
			if len(k) > 90 {
				k = k[:90]
			}
			errs[k]++
			if fails <= 3 {
				t.Logf("seed %d: %v\n%s", seed, err, c.Files[0].Source())
			}
			continue
		}
		for _, e := range c.Entries {
			var buf bytes.Buffer
			err, esc := cc.Render(&buf, e.Template, c.Data[e.Data].Map(), c.IJ[e.IJ].Map(), nil)
			renders++
			if esc != nil {
				t.Errorf("seed %d: escape %v", seed, esc.Value)
			}
			if err != nil {
				rerr++
				k := err.Error()
				if len(k) > 100 {
					k = k[:100]
				}
				errs["R:"+k]++
			}
		}
	}
	t.Logf("compile failures %d/%d, render errors %d/%d", fails, N, rerr, renders)
	n := 0
	for k, v := range errs {
		if n < 25 {
			fmt.Printf("%5d %s\n", v, k)
		}
		n++
	}
}
