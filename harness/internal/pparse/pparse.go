// Package pparse executes the parse entry points of soy as the main task of a simulation
// (shared by C05 and C18).
package pparse

import (
	"encoding/hex"
	"encoding/json"
	"fmt"
	"runtime/debug"
	"strings"
	"unicode/utf8"

	"github.com/robfig/soy"
	"github.com/robfig/soy/parse"
	"verif/simrt"
)

// Call is one invocation of a parse entry point.
type Call struct {
	Entry string   `json:"entry"` // file | expr | globals | compile
	Input string   `json:"input,omitempty"`
	Files []string `json:"files,omitempty"` // compile: several files
	Kind  string   `json:"kind,omitempty"`  // how the input was derived (for evidence only)
}

type callJSON struct {
	Entry    string   `json:"entry"`
	Input    string   `json:"input,omitempty"`
	InputHex string   `json:"input_hex,omitempty"` // inputs that are not valid UTF-8 (JSON strings cannot carry them)
	Files    []string `json:"files,omitempty"`
	FilesHex []string `json:"files_hex,omitempty"`
	Kind     string   `json:"kind,omitempty"`
}

// MarshalJSON keeps inputs byte-exact: JSON would replace invalid UTF-8 by U+FFFD.
func (c Call) MarshalJSON() ([]byte, error) {
	j := callJSON{Entry: c.Entry, Kind: c.Kind}
	if utf8.ValidString(c.Input) {
		j.Input = c.Input
	} else {
		j.InputHex = hex.EncodeToString([]byte(c.Input))
	}
	allValid := true
	for _, f := range c.Files {
		if !utf8.ValidString(f) {
			allValid = false
		}
	}
	if allValid {
		j.Files = c.Files
	} else {
		for _, f := range c.Files {
			j.FilesHex = append(j.FilesHex, hex.EncodeToString([]byte(f)))
		}
	}
	return json.Marshal(j)
}

// UnmarshalJSON is the inverse of MarshalJSON.
func (c *Call) UnmarshalJSON(b []byte) error {
	var j callJSON
	if err := json.Unmarshal(b, &j); err != nil {
		return err
	}
	c.Entry, c.Kind, c.Input, c.Files = j.Entry, j.Kind, j.Input, j.Files
	if j.InputHex != "" {
		raw, err := hex.DecodeString(j.InputHex)
		if err != nil {
			return err
		}
		c.Input = string(raw)
	}
	for _, h := range j.FilesHex {
		raw, err := hex.DecodeString(h)
		if err != nil {
			return err
		}
		c.Files = append(c.Files, string(raw))
	}
	return nil
}

// Outcome is what the call did as seen by its caller.
type Outcome struct {
	Returned  bool
	Err       string
	Panic     string
	PanicSite string
}

// SoySite extracts the innermost robfig/soy frame of a panic stack.
func SoySite(stack string) string {
	lines := strings.Split(stack, "\n")
	start := 0
	for i, l := range lines {
		if strings.HasPrefix(l, "panic(") {
			start = i
		}
	}
	for i := start; i+1 < len(lines); i++ {
		l := lines[i]
		if strings.HasPrefix(l, "github.com/robfig/soy") && !strings.Contains(l, "verifsim") {
			fn := l
			if k := strings.LastIndex(fn, "("); k > 0 {
				fn = fn[:k]
			}
			if k := strings.LastIndex(fn, "/"); k >= 0 {
				fn = fn[k+1:]
			}
			loc := strings.TrimSpace(lines[i+1])
			if k := strings.Index(loc, " +0x"); k > 0 {
				loc = loc[:k]
			}
			if k := strings.Index(loc, "github.com/robfig/soy"); k >= 0 {
				loc = loc[k+len("github.com/robfig/soy"):]
				if j := strings.Index(loc, "/"); j >= 0 {
					loc = loc[j+1:] // drops "@v0.0.0"
				}
			} else if k := strings.LastIndex(loc, "/soy/"); k >= 0 {
				loc = loc[k+len("/soy/"):]
			}
			return loc + " " + fn
		}
	}
	return "unknown"
}

// Exec runs the call, converting an escaping panic into the outcome.
func Exec(c Call) (out Outcome) {
	defer func() {
		if r := recover(); r != nil {
			if simrt.IsAbort(r) {
				panic(r)
			}
			out.Panic = fmt.Sprint(r)
			out.PanicSite = SoySite(string(debug.Stack()))
		}
	}()
	var err error
	switch c.Entry {
	case "file":
		_, err = parse.SoyFile("input.soy", c.Input)
	case "expr":
		_, err = parse.Expr(c.Input)
	case "globals":
		_, err = soy.ParseGlobals(strings.NewReader(c.Input))
	case "compile":
		b := soy.NewBundle()
		for i, f := range c.Files {
			name := fmt.Sprintf("f%d.soy", i)
			if c.Kind == "compile-unnamed" {
				name = "" // the name is documented as optional
			}
			b.AddTemplateString(name, f)
		}
		_, err = b.Compile()
	default:
		panic("pparse: unknown entry " + c.Entry)
	}
	out.Returned = true
	if err != nil {
		out.Err = err.Error()
	}
	return out
}

// Len is the input size the time bound is proportional to.
func (c Call) Len() int {
	n := len(c.Input)
	for _, f := range c.Files {
		n += len(f)
	}
	return n
}

// RunOne executes one call as the main task of a fresh simulation.
func RunOne(c Call, ch simrt.Chooser, budget int64, nsPerStep int64) (Outcome, *simrt.Result) {
	var out Outcome
	res := simrt.Run(simrt.Config{Budget: budget, Chooser: ch, NsPerStep: nsPerStep}, func() {
		out = Exec(c)
	})
	return out, res
}

// ChooserFor returns the i-th scheduling variant for the two-task parse pipeline.
func ChooserFor(i int, seed uint64) (simrt.Chooser, string) {
	switch i % 4 {
	case 0:
		return simrt.NoPreempt{}, "lockstep"
	case 1:
		return simrt.NewRandomChooser(seed, 1), "random-q1"
	case 2:
		return simrt.NewRandomChooser(seed, 7), "random-q7"
	default:
		return &simrt.RoundRobin{Quantum: 1}, "rr-q1"
	}
}
