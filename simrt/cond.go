package simrt

import (
	"reflect"
	"sync"
	"unsafe"
)

// sync.Cond: Wait releases the lock (waking the simulated tasks that wait for it), disables the
// task until a Signal or Broadcast on the same Cond chooses it (Signal: the longest waiter), and
// takes the lock again through the mutex model.  The happens-before edges are those of the lock,
// as with the real Cond.

// CondWait replaces c.Wait().
func CondWait(c *sync.Cond) {
	s := getCur()
	if s == nil {
		c.Wait()
		return
	}
	l, ok := c.L.(tryLocker)
	if !ok {
		panic("simrt: sync.Cond over a Locker without TryLock is not modelled")
	}
	c.L.Unlock()
	relocked := false
	defer func() {
		// a run aborted while the task waits must still leave Wait with the lock held: the caller's
		// deferred Unlock would otherwise be fatal ("unlock of unlocked mutex")
		if !relocked {
			l.TryLock()
		}
	}()
	condBlock(s, uintptr(unsafe.Pointer(c)), lockKey(c.L))
	Lock(l, 0)
	relocked = true
}

//go:norace
func condBlock(s *Sim, key, lock uintptr) {
	if s.aborted {
		abortTask(s)
	}
	s.steps++
	s.call(request{kind: reqCondWait, t: s.current, ch: key, lock: lock})
}

// CondSignal replaces c.Signal().
func CondSignal(c *sync.Cond) {
	if s := getCur(); s != nil {
		condNotify(s, uintptr(unsafe.Pointer(c)), false)
		return
	}
	c.Signal()
}

// CondBroadcast replaces c.Broadcast().
func CondBroadcast(c *sync.Cond) {
	if s := getCur(); s != nil {
		condNotify(s, uintptr(unsafe.Pointer(c)), true)
		return
	}
	c.Broadcast()
}

//go:norace
func condNotify(s *Sim, key uintptr, all bool) {
	if s.aborted {
		return
	}
	s.steps++
	s.call(request{kind: reqCondSignal, t: s.current, ch: key, all: all})
}

// SyncMapRange replaces m.Range(f): the entries are collected with the real Range and visited in
// the order the installed map plan dictates (sync.Map iterates a Go map inside).
func SyncMapRange(m *sync.Map, f func(key, value any) bool, site int) {
	if getCur() == nil && getPlan() == nil {
		m.Range(f)
		return
	}
	type kv struct{ k, v any }
	var all []kv
	m.Range(func(k, v any) bool {
		all = append(all, kv{k, v})
		return true
	})
	keys := make([]reflect.Value, len(all))
	idx := map[any]int{}
	for i, e := range all {
		keys[i] = reflect.ValueOf(&all[i].k).Elem()
		idx[e.k] = i
	}
	for _, k := range ReflectKeys(keys, site) {
		e := all[idx[k.Interface()]]
		if !f(e.k, e.v) {
			return
		}
	}
}
