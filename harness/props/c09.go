package props

import (
	"bytes"
	"encoding/json"
	"fmt"
	"io"
	"log"
	"os"
	"regexp"
	"sort"
	"strconv"
	"strings"
	"sync"

	"github.com/robfig/soy/ast"
	"github.com/robfig/soy/data"
	"github.com/robfig/soy/parse"
	"github.com/robfig/soy/soyhtml"
	"github.com/robfig/soy/soymsg"
	"verif/harness/internal/faults"
	"verif/harness/internal/gen"
	"verif/harness/internal/sut"
	"verif/harness/internal/wk"
	"verif/simrt"
)

// c09Op is one operation of a client task.
type c09Op struct {
	Op       string `json:"op"` // render | render-shared | render-struct | js | compile | parse | lookup (Template = locale)
	Template string `json:"template,omitempty"`
	Data     int    `json:"data,omitempty"`
	IJ       int    `json:"ij,omitempty"`
	Cat      bool   `json:"cat,omitempty"`
	File     int    `json:"file,omitempty"`
	ES6      bool   `json:"es6,omitempty"`
	Seed     uint64 `json:"seed,omitempty"` // compile: seed of the independent bundle
	Bad      bool   `json:"bad,omitempty"`  // compile / parse: the (first) file is damaged first
	Ill      bool   `json:"ill,omitempty"`  // render: Data indexes the ill-typed variants (evidence only)
}

type c09Sched struct {
	Strategy string `json:"strategy"` // random | pct | coarse | rr
	Seed     uint64 `json:"seed"`
	Q        int    `json:"q,omitempty"`
	D        int    `json:"d,omitempty"`
	Horizon  int64  `json:"horizon,omitempty"`
}

// c09One is one simulated run of C09.
type c09One struct {
	Bundle     *gen.Case        `json:"bundle"`
	Obligatory []string         `json:"obligatory,omitempty"`
	Logger     bool             `json:"logger,omitempty"`
	CatKind    int              `json:"cat_kind"`
	Tasks      [][]c09Op        `json:"tasks"`
	Sched      c09Sched         `json:"sched"`
	Focus      string           `json:"focus,omitempty"` // the construct most templates of the bundle contain (evidence only)
	Decisions  []simrt.Decision `json:"decisions,omitempty"`
}

// roBundle is a message bundle without any mutable state (the stub must not race itself).
type roBundle struct{ msgs map[uint64]*soymsg.Message }

func (b *roBundle) Locale() string                    { return "xx" }
func (b *roBundle) Message(id uint64) *soymsg.Message { return b.msgs[id] }
func (b *roBundle) PluralCase(n int) int {
	if n == 1 {
		return 0
	}
	return 1
}

// c09Case is the replay case of C09: every simulated run this worker process executed, in order,
// up to and including the failing one, each with its schedule decisions.  Process-level state
// (package-level caches, free lists, counters) is thereby part of the replay; the minimiser
// drops the runs that do not matter.
type c09Case struct {
	Runs []*c09One `json:"runs"`
}

type opResult struct {
	out []byte
	err bool
	esc string
}

func (c *c09One) chooser() simrt.Chooser {
	s := c.Sched
	switch s.Strategy {
	case "pct":
		h := s.Horizon
		if h <= 0 {
			h = 20000
		}
		return simrt.NewPCT(s.Seed, s.D, h)
	case "coarse":
		return simrt.NewCoarse(s.Seed)
	case "rr":
		return &simrt.RoundRobin{Quantum: 1}
	default:
		return simrt.NewRandomChooser(s.Seed, s.Q)
	}
}

func c09Opts() gen.Opts {
	o := gen.DefaultOpts()
	o.Directives = []string{"|vq"}
	o.MaxFiles = 3
	o.MaxTemplates = 4
	return o
}

func smallOpts() gen.Opts {
	o := gen.DefaultOpts()
	o.MaxFiles, o.MaxTemplates, o.MaxNodes = 2, 2, 3
	return o
}

// execOp performs one operation against the shared compiled bundle.
func execOp(op c09Op, cc *sut.Compiled, dataMaps, ijMaps []data.Map, cat soymsg.Bundle, shared map[string]*soyhtml.Renderer) opResult {
	var r opResult
	switch op.Op {
	case "render-struct":
		// the same Go struct value is converted and rendered by several tasks at once
		var buf bytes.Buffer
		func() {
			defer func() {
				if p := recover(); p != nil {
					if simrt.IsAbort(p) {
						panic(p)
					}
					r.esc = fmt.Sprint(p)
				}
			}()
			r.err = cc.Tofu.Render(&buf, op.Template, structData[op.Data%len(structData)]) != nil
		}()
		r.out = buf.Bytes()
	case "render-shared":
		// one configured *Renderer per (template, $ij, catalogue), executed by several tasks at once
		rd := shared[sharedKey(op)]
		if rd == nil {
			r.esc = "harness: no shared renderer"
			return r
		}
		var buf bytes.Buffer
		func() {
			defer func() {
				if p := recover(); p != nil {
					if simrt.IsAbort(p) {
						panic(p)
					}
					r.esc = fmt.Sprint(p)
				}
			}()
			r.err = rd.Execute(&buf, dataMaps[op.Data]) != nil
		}()
		r.out = buf.Bytes()
	case "render":
		var buf bytes.Buffer
		var c soymsg.Bundle
		if op.Cat {
			c = cat
		}
		err, esc := cc.Render(&buf, op.Template, dataMaps[op.Data], ijMaps[op.IJ], c)
		r.out, r.err = buf.Bytes(), err != nil
		if esc != nil {
			r.esc = esc.Value + " at " + esc.Site
		}
	case "js":
		var buf bytes.Buffer
		var c soymsg.Bundle
		if op.Cat {
			c = cat
		}
		err, esc := cc.WriteJS(&buf, op.File%len(cc.Reg.SoyFiles), op.ES6, c)
		r.out, r.err = buf.Bytes(), err != nil
		if esc != nil {
			r.esc = esc.Value + " at " + esc.Site
		}
	case "compile":
		// (the case was generated and printed in the set-up: fmt keeps its printers in a real sync.Pool,
		// whose hand-over would order one client task after another for the race detector)
		gc := prepared(op)
		c2, err := sut.Compile(gc)
		r.err = err != nil
		if err == nil {
			var buf bytes.Buffer
			for _, m := range c2.Msgs {
				buf.WriteString(strconv.FormatUint(m.ID, 10))
				buf.WriteByte(';')
			}
			e := gc.Entries[0]
			rerr, _ := c2.Render(&buf, e.Template, gc.Data[e.Data].Map(), gc.IJ[e.IJ].Map(), nil)
			buf.WriteString("|" + strconv.FormatBool(rerr != nil))
			r.out = buf.Bytes()
		}
	case "lookup":
		// the application asks the shared PO provider for the bundle of a locale that has no
		// catalogue of its own (fallback path) and renders with it
		prov := providerFor(cc)
		if prov == nil {
			r.out = []byte("no provider")
			return r
		}
		b := prov.Bundle(op.Template)
		if b == nil {
			r.out = []byte("nil bundle")
			return r
		}
		r.out = []byte("bundle:" + b.Locale())
	case "parse":
		gc := prepared(op)
		n, err := parse.SoyFile("p.soy", gc.Files[0].Text)
		r.err = err != nil
		if n != nil {
			r.out = []byte(strconv.Itoa(len(n.Body)))
		}
	}
	return r
}

// providers holds the PO provider of the system bundle and of the reference bundle of the run.
var providers = map[*sut.Compiled]soymsg.Provider{}

func providerFor(cc *sut.Compiled) soymsg.Provider { return providers[cc] }

// preparedCases holds the independent bundles of the run's compile and parse operations, generated
// and printed before the client tasks start (read-only afterwards).
var preparedCases map[string]*gen.Case

func prepKey(op c09Op) string {
	return strconv.FormatUint(op.Seed, 16) + "|" + strconv.FormatBool(op.Bad)
}

func prepared(op c09Op) *gen.Case { return preparedCases[prepKey(op)] }

func prepareCases(cs *c09One) {
	preparedCases = map[string]*gen.Case{}
	for _, t := range cs.Tasks {
		for _, op := range t {
			if op.Op != "compile" && op.Op != "parse" || preparedCases[prepKey(op)] != nil {
				continue
			}
			o := smallOpts()
			if op.Seed%3 == 0 {
				o.MaxFiles = 6 // now and then a bundle of many small files
			}
			gc := gen.Generate(op.Seed, o)
			for i, f := range gc.Files {
				gc.Files[i] = &gen.File{Name: f.Name, Text: f.Source()}
			}
			if op.Bad {
				gc.Files[0].Text = damage(gc.Files[0].Text, op.Seed)
				// in a larger bundle several files are damaged
				for i := 1; i < len(gc.Files); i++ {
					if (op.Seed>>uint(i))&1 == 1 {
						gc.Files[i].Text = damage(gc.Files[i].Text, op.Seed+uint64(i))
					}
				}
			}
			preparedCases[prepKey(op)] = gc
		}
	}
}

func opKey(op c09Op) string { return fmt.Sprintf("%+v", op) }

var touched int

// touchValue reads every entry of a data value (maps are iterated, lists indexed), yielding to the
// scheduler as it goes.
func touchValue(v data.Value) {
	simrt.Yield(-9)
	switch x := v.(type) {
	case data.Map:
		for k, e := range x {
			touched += len(k)
			touchValue(e)
		}
	case data.List:
		for _, e := range x {
			touchValue(e)
		}
	case data.String:
		touched += len(x)
	}
}

func touchStruct(p *poolData) {
	simrt.Yield(-9)
	touched += int(p.A+p.N) + len(p.B) + len(p.H) + len(p.Xs) + len(p.Ss) + len(p.Ms) + len(p.M.B) + len(p.M.Xs)
	if p.O != nil {
		touched += len(*p.O)
	}
	for _, m := range p.Ms {
		touched += len(m.B) + len(m.Xs)
	}
}

// damage makes a Soy file malformed in one of the ways C05 uses (scanner and parser then take
// their error paths -- drain, recover -- concurrently with everything else in the run).
func damage(src string, seed uint64) string {
	r := simrt.NewRNG(seed ^ 0xbad)
	if len(src) < 8 {
		return src + "{"
	}
	i := 1 + r.Intn(len(src)-2)
	switch r.Intn(7) {
	case 0:
		return src[:i] // truncated
	case 1:
		return src[:i] + "{/if}" + src[i:] // stray close tag, more input follows
	case 2:
		return src[:i] + "{foo bar}" + src[i:] // unknown command
	case 3:
		return src[:i] + "{print 1 2 3}" + src[i:] // expression error inside a tag
	case 4:
		return src[:i] + "{call .x data=\"[1 2\"/}" + src[i:] // error inside a quoted expression
	case 5:
		return src[:i] + "'" + src[i:] + "\n{" // unterminated things
	default:
		return src[:i] + "{msg desc=\"\"}{plural $n}" + src[i:]
	}
}

// poolMap / poolData are Go structs with the shape of the generator's parameter pool: rendering
// with them goes through Tofu.Render's conversion of Go values (data.New, struct options).
type poolMap struct {
	A, N int64
	B    string
	C    bool
	Xs   []int64
}

type poolData struct {
	A, N int64
	B, H string
	C    bool
	F    float64
	Xs   []int64
	Ss   []string
	M    poolMap
	Ms   []poolMap
	O    *string
}

func toPoolMap(d gen.DVal) poolMap {
	var m poolMap
	for _, kv := range d.M {
		switch kv.K {
		case "a":
			m.A = kv.V.I
		case "n":
			m.N = kv.V.I
		case "b":
			m.B = kv.V.S
		case "c":
			m.C = kv.V.B
		case "xs":
			for _, x := range kv.V.L {
				m.Xs = append(m.Xs, x.I)
			}
		}
	}
	return m
}

func toPoolData(d gen.DVal) *poolData {
	p := &poolData{}
	for _, kv := range d.M {
		v := kv.V
		switch kv.K {
		case "a":
			p.A = v.I
		case "n":
			p.N = v.I
		case "b":
			p.B = v.S
		case "h":
			p.H = v.S
		case "c":
			p.C = v.B
		case "f":
			p.F = v.F
		case "xs":
			for _, x := range v.L {
				p.Xs = append(p.Xs, x.I)
			}
		case "ss":
			for _, x := range v.L {
				p.Ss = append(p.Ss, x.S)
			}
		case "m":
			p.M = toPoolMap(v)
		case "ms":
			for _, x := range v.L {
				p.Ms = append(p.Ms, toPoolMap(x))
			}
		case "o":
			s := v.S
			p.O = &s
		}
	}
	return p
}

func sharedKey(op c09Op) string {
	return op.Template + "|" + strconv.Itoa(op.IJ) + "|" + strconv.FormatBool(op.Cat)
}

// sharedRenderers builds the Renderer objects that several tasks will execute concurrently.
func sharedRenderers(cs *c09One, cc *sut.Compiled, ijMaps []data.Map, cat soymsg.Bundle) map[string]*soyhtml.Renderer {
	out := map[string]*soyhtml.Renderer{}
	for _, t := range cs.Tasks {
		for _, op := range t {
			if op.Op != "render-shared" || out[sharedKey(op)] != nil || op.IJ >= len(ijMaps) {
				continue
			}
			rd := cc.Tofu.NewRenderer(op.Template).Inject(ijMaps[op.IJ])
			if op.Cat {
				rd.WithMessages(cat)
			}
			out[sharedKey(op)] = rd
		}
	}
	return out
}

// structData holds the Go struct form of the current run's data sets (shared by all tasks).
var structData []*poolData

type c09Outcome struct {
	res    *simrt.Result
	fail   *wk.Failure
	ops    int
	done   map[string]int // per operation kind: operations that completed without an error or an escaped panic
	detail string
}

// c09Run executes one simulated run.
func c09Run(cs *c09One, replay bool) c09Outcome {
	sut.InstallExtensions()
	sut.SetObligatory(cs.Obligatory)
	// one application-wide globals map is handed to every bundle of the run (AddGlobalsMap copies it)
	sut.SharedGlobals = data.Map{"SHARED_N": data.Int(7), "shared.NAME": data.String("s")}
	defer func() { sut.SharedGlobals = nil }()
	if cs.Logger {
		soyhtml.Logger = log.New(io.Discard, "", 0)
	} else {
		soyhtml.Logger = nil
	}
	var ch simrt.Chooser = cs.chooser()
	if replay && cs.Decisions != nil {
		ch = &simrt.Replay{List: cs.Decisions}
	}
	var (
		invalid        string
		results        [][]opResult
		refs           = map[string]opResult{}
		clientDeadlock []simrt.LeakInfo
		nops           int
	)
	res := simrt.Run(simrt.Config{Budget: 30_000_000, Chooser: ch, NsPerStep: simrt.SpeedFor(cs.Sched.Seed), RecordSwitchPairs: 4096, TraceLog: os.Getenv("VERIF_DEBUG") == "2"}, func() {
		// ---- set-up, as a server does at start-up: ordinary happens-before to the client tasks
		cc, err := sut.Compile(cs.Bundle)
		if err != nil {
			invalid = err.Error()
			return
		}
		ref, err := sut.Compile(cs.Bundle) // reference: every operation alone on a fresh bundle
		if err != nil {
			invalid = err.Error()
			return
		}
		mk := func() ([]data.Map, []data.Map) {
			var d, ij []data.Map
			for _, x := range cs.Bundle.Data {
				d = append(d, x.Map())
			}
			// after the well-typed data sets, their ill-typed variants: renders with them fail at run time,
			// so the error paths (position lookup, message building) run concurrently too
			for i, x := range cs.Bundle.Data {
				d = append(d, illTyped(x, i).Map())
			}
			for _, x := range cs.Bundle.IJ {
				ij = append(ij, x.Map())
			}
			return d, ij
		}
		dataMaps, ijMaps := mk()
		refData, refIJ := mk()
		structData = structData[:0:0]
		for _, x := range cs.Bundle.Data {
			structData = append(structData, toPoolData(x))
		}
		if len(structData) == 0 {
			invalid = "bundle has no data sets"
			return
		}
		mkCat := func(c *sut.Compiled) soymsg.Bundle {
			if cs.CatKind == faults.KindPO {
				if b, ok := faults.POBundle(c.Msgs); ok {
					return b // the repository's own PO bundle, shared by all tasks
				}
			}
			return &roBundle{msgs: faults.NewBundle(faults.BundleKind(cs.CatKind%3), c.Msgs).Msgs}
		}
		cat, refCat := mkCat(cc), mkCat(ref)
		providers = map[*sut.Compiled]soymsg.Provider{}
		if cs.CatKind == faults.KindPO {
			providers[cc], providers[ref] = faults.POProvider(cc.Msgs), faults.POProvider(ref.Msgs)
		}
		shared := sharedRenderers(cs, cc, ijMaps, cat)
		refShared := sharedRenderers(cs, ref, refIJ, refCat)
		for _, t := range cs.Tasks {
			for _, op := range t {
				if (op.Op == "render" || op.Op == "render-shared") && (op.Data >= len(dataMaps) || op.IJ >= len(ijMaps)) {
					invalid = "op refers to missing data"
					return
				}
			}
		}
		prepareCases(cs)
		// ---- the concurrent part.  Nothing has been rendered, generated or evaluated in this run so
		// far (the "alone" references are computed afterwards): whatever soy fills lazily on first use
		// is filled by the client tasks, concurrently.
		results = make([][]opResult, len(cs.Tasks))
		var wg sync.WaitGroup
		for ti := range cs.Tasks {
			ti := ti
			results[ti] = make([]opResult, len(cs.Tasks[ti]))
			wg.Add(1)
			simrt.Spawn(fmt.Sprintf("client%d", ti), func() {
				defer wg.Done()
				for oi, op := range cs.Tasks[ti] {
					results[ti][oi] = execOp(op, cc, dataMaps, ijMaps, cat, shared)
				}
			})
		}
		// the application reads its own inputs while the renders run, as it is entitled to (renders
		// never modify them): any write to a shared input then has an unsynchronised reader
		wg.Add(1)
		simrt.Spawn("observer", func() {
			defer wg.Done()
			for pass := 0; pass < 4; pass++ {
				for _, m := range dataMaps {
					touchValue(m)
				}
				for _, m := range ijMaps {
					touchValue(m)
				}
				touchValue(sut.SharedGlobals)
				for _, p := range structData {
					touchStruct(p)
				}
				for i := 0; i < 40; i++ {
					simrt.Yield(-9) // let the clients make progress between two passes
				}
			}
		})
		if left := simrt.Idle(); len(left) > 0 {
			// the client tasks block one another for ever: main must not wait for them for real
			clientDeadlock = left
			return
		}
		wg.Wait()
		// ---- the references: every operation alone, on the second bundle
		for _, t := range cs.Tasks {
			for _, op := range t {
				k := opKey(op)
				if _, ok := refs[k]; !ok {
					refs[k] = execOp(op, ref, refData, refIJ, refCat, refShared)
				}
			}
		}
	})
	out := c09Outcome{res: res}
	// the decisions of this run become part of the process log
	if !replay || cs.Decisions == nil {
		if len(res.Decisions) <= 20000 {
			cs.Decisions = res.Decisions
			if cs.Decisions == nil {
				cs.Decisions = []simrt.Decision{}
			}
		}
	}
	mkf := func(class, site, detail string) *wk.Failure {
		return &wk.Failure{Class: class, Site: site, Detail: detail}
	}
	switch {
	case len(clientDeadlock) > 0 && !res.Budget:
		var bl []string
		for _, b := range clientDeadlock {
			bl = append(bl, b.Name+" blocked in "+b.BlockOp+" at "+SiteName(b.BlockSite))
		}
		out.fail = mkf("deadlock", strings.Join(bl, "; "), "the concurrent operations block one another for ever: "+strings.Join(bl, "; "))
		return out
	case invalid != "":
		out.fail = &wk.Failure{Class: "invalid-case", Detail: invalid}
		return out
	case res.Budget:
		var bl []string
		for _, b := range res.Blocked {
			bl = append(bl, fmt.Sprintf("%s blocked in %s at %s", b.Name, b.BlockOp, SiteName(b.BlockSite)))
		}
		out.fail = mkf("budget", SiteName(res.AbortSite), fmt.Sprintf("concurrent run did not finish within the step budget of %d steps (%d tasks, %d switches; blocked: %v)", res.Steps, res.Tasks, res.Switches, bl))
		return out
	case res.Deadlock:
		out.fail = mkf("deadlock", fmt.Sprint(res.Blocked), "no task can run: "+fmt.Sprint(res.Blocked))
		return out
	case res.MainPanic != nil:
		out.fail = mkf("panic", "main", res.MainPanic.Value)
		return out
	case len(res.TaskPanics) > 0:
		out.fail = mkf("panic", res.TaskPanics[0].Name, res.TaskPanics[0].Value)
		return out
	}
	out.done = map[string]int{}
	for ti, t := range cs.Tasks {
		for oi, op := range t {
			nops++
			got, want := results[ti][oi], refs[opKey(op)]
			if got.esc == "" && !got.err && len(got.out) > 0 {
				out.done[op.Op]++
			}
			switch {
			case got.esc != "" && want.esc == "":
				out.fail = mkf("panic", "concurrent "+op.Op, fmt.Sprintf("task %d op %d (%s %s): panic escaped only in the concurrent run: %s", ti, oi, op.Op, op.Template, got.esc))
			case !bytes.Equal(got.out, want.out) || got.err != want.err:
				out.fail = mkf("output", "concurrent "+op.Op+" differs from the same operation run alone",
					fmt.Sprintf("task %d op %d (%s %s file %d): bytes written under this interleaving differ from the operation run alone on a fresh bundle:\n got (err=%v) %q\nwant (err=%v) %q",
						ti, oi, op.Op, op.Template, op.File, got.err, trunc(string(got.out), 200), want.err, trunc(string(want.out), 200)))
			}
			if out.fail != nil {
				out.ops = nops
				return out
			}
		}
	}
	out.ops = nops
	return out
}

var raceHdr = regexp.MustCompile(`(?m)^(Write|Read|Previous write|Previous read|Atomic write|Previous atomic write|Atomic read|Previous atomic read) at 0x[0-9a-f]+ by (main goroutine|goroutine \d+):$`)

// raceSites extracts, for every access of the first report, its innermost frames.
func raceSites(report string) (site string, first string) {
	end := strings.Index(report[1:], "==================")
	if end > 0 {
		first = report[:end+1]
	} else {
		first = report
	}
	lines := strings.Split(first, "\n")
	var accesses []string
	for i := 0; i < len(lines); i++ {
		if !raceHdr.MatchString(lines[i]) {
			continue
		}
		kind := strings.ToLower(strings.SplitN(lines[i], " at ", 2)[0])
		kind = strings.TrimPrefix(kind, "previous ")
		loc := "?"
		for j := i + 1; j+1 < len(lines) && strings.TrimSpace(lines[j]) != ""; j += 2 {
			fn := strings.TrimSpace(lines[j])
			if strings.Contains(fn, "props.touchValue") || strings.Contains(fn, "props.touchStruct") {
				loc = "(the application reading its own shared input)"
				break
			}
			if strings.Contains(fn, "robfig/soy") && !strings.Contains(fn, "simrt") {
				file := strings.TrimSpace(lines[j+1])
				if k := strings.Index(file, " +0x"); k > 0 {
					file = file[:k]
				}
				if k := strings.Index(file, "robfig/soy"); k >= 0 {
					file = file[k+len("robfig/soy"):]
					if s := strings.Index(file, "/"); s >= 0 {
						file = file[s+1:]
					}
				}
				if k := strings.LastIndex(fn, "/"); k >= 0 {
					fn = fn[k+1:]
				}
				fn = strings.TrimSuffix(fn, "()")
				loc = file + " " + fn
				break
			}
		}
		accesses = append(accesses, kind+" "+loc)
	}
	sort.Strings(accesses)
	return strings.Join(accesses, " vs "), first
}

func raceLogSize(prefix string) (int64, string) {
	if prefix == "" {
		return 0, ""
	}
	p := fmt.Sprintf("%s.%d", prefix, os.Getpid())
	st, err := os.Stat(p)
	if err != nil {
		return 0, p
	}
	return st.Size(), p
}

// c09Generate draws the case of run index i of a unit.
func c09Generate(c *wk.Ctx, run, i int) *c09One {
	r := simrt.NewRNG(c.UnitSeed(run, uint64(1000+i)))
	o09 := c09Opts()
	o09.Focus = gen.FocusFor(c.UnitSeed(run, uint64(2000+i)))
	gc := gen.Generate(c.UnitSeed(run, uint64(2000+i)), o09)
	cs := &c09One{Focus: o09.Focus, Bundle: gc, CatKind: []int{0, 1, 2, faults.KindPO, faults.KindPO}[r.Intn(5)], Logger: r.Intn(3) == 0}
	switch r.Intn(4) {
	case 1:
		cs.Obligatory = []string{"vbang"}
	case 2:
		cs.Obligatory = []string{"vq", "vbang"}
	}
	g := 2 + r.Intn(5)
	useCat := r.Intn(2) == 0
	// a few hot entries shared by several tasks: same template, same data map objects
	var hot []gen.Entry
	for k := 0; k < 2; k++ {
		hot = append(hot, gc.Entries[r.Intn(len(gc.Entries))])
	}
	// swarm: each run has a theme that concentrates the operation mix, so that operations of one kind
	// overlap in time (two struct conversions, two JS generations, two compilations, ...)
	theme := r.Intn(7)
	for t := 0; t < g; t++ {
		var ops []c09Op
		for k, n := 0, 1+r.Intn(4); k < n; k++ {
			e := hot[r.Intn(len(hot))]
			if r.Intn(3) == 0 {
				e = gc.Entries[r.Intn(len(gc.Entries))]
			}
			x := r.Intn(100)
			if r.Intn(10) < 7 {
				switch theme {
				case 1:
					x = 65 // render-struct
				case 2:
					x = 70 // js
				case 3:
					x = 86 + r.Intn(14) // compile / parse
				case 4:
					x = 55 // render-shared
				}
			}
			switch {
			case x < 50:
				op := c09Op{Op: "render", Template: e.Template, Data: e.Data, IJ: e.IJ, Cat: useCat && r.Intn(4) != 0}
				if theme == 5 && r.Intn(2) == 0 || r.Intn(8) == 0 {
					op.Data += len(gc.Data) // the ill-typed variant of the data set: a render that fails
					op.Ill = true
				}
				ops = append(ops, op)
			case x < 53 && cs.CatKind == faults.KindPO:
				ops = append(ops, c09Op{Op: "lookup", Template: []string{"en_US", "en_GB", "fr_CA", "de", "en", "fr_FR", "en_US"}[r.Intn(7)]})
			case x < 62:
				ops = append(ops, c09Op{Op: "render-shared", Template: e.Template, Data: e.Data, IJ: e.IJ, Cat: useCat})
			case x < 68:
				ops = append(ops, c09Op{Op: "render-struct", Template: e.Template, Data: e.Data})
			case x < 84:
				ops = append(ops, c09Op{Op: "js", File: r.Intn(4), ES6: r.Intn(2) == 0, Cat: useCat && r.Intn(2) == 0})
			case x < 93:
				ops = append(ops, c09Op{Op: "compile", Seed: c.UnitSeed(run, uint64(3000+i*64+t*8+k)), Bad: r.Intn(5) < 2})
			default:
				ops = append(ops, c09Op{Op: "parse", Seed: c.UnitSeed(run, uint64(5000+i*64+t*8+k)), Bad: r.Intn(5) < 2})
			}
		}
		cs.Tasks = append(cs.Tasks, ops)
	}
	cs.Sched.Seed = c.UnitSeed(run, uint64(7000+i))
	switch r.Intn(8) {
	case 0, 1, 2, 3:
		cs.Sched.Strategy, cs.Sched.Q = "random", []int{1, 3, 10, 50, 500}[r.Intn(5)]
	case 4, 5:
		cs.Sched.Strategy, cs.Sched.D, cs.Sched.Horizon = "pct", 1+r.Intn(3), int64(2000+r.Intn(60000))
	case 6:
		cs.Sched.Strategy = "coarse"
	default:
		cs.Sched.Strategy = "rr"
	}
	return cs
}

// C09 is the worker entry point for property C09.
func C09(c *wk.Ctx) {
	LoadSites(c.Sites)
	var processLog []*c09One
	attach := func(f *wk.Failure) *wk.Failure {
		if f != nil && f.Class != "invalid-case" && f.Replay == nil {
			b, _ := json.Marshal(&c09Case{Runs: processLog})
			f.Replay = b
		}
		return f
	}
	checkRace := func(before int64) *wk.Failure {
		after, path := raceLogSize(c.RaceLog)
		if after <= before {
			return nil
		}
		b, _ := os.ReadFile(path)
		report := string(b[before:])
		site, first := raceSites(report)
		return attach(&wk.Failure{Class: "race", Site: site, Detail: "the race detector reports conflicting accesses that soy does not order (serial, replayable execution; task handoffs are hidden from the detector):\n" + trunc(first, 3500)})
	}
	if c.Mode == "replay" {
		var cs c09Case
		readReplay(c, &cs)
		u := wk.NewUnit(0)
		for _, one := range cs.Runs {
			if one == nil || one.Bundle == nil {
				continue
			}
			processLog = append(processLog, one)
			before, _ := raceLogSize(c.RaceLog)
			o := c09Run(one, true)
			if os.Getenv("VERIF_DEBUG") == "2" {
				tr := o.res.Trace
				if len(tr) > 60 {
					tr = tr[len(tr)-60:]
				}
				for _, t := range tr {
					fmt.Fprintf(os.Stderr, "T %d %s -> %d @%d\n", t[0], SiteName(int(t[1])), t[2], t[3])
				}
			}
			u.Evals++
			u.Steps += o.res.Steps
			if o.res.Diverged {
				u.Counters["replay_diverged"]++
			}
			if o.fail != nil && o.fail.Class == "invalid-case" {
				continue
			}
			u.AddFail(checkRace(before))
			u.AddFail(attach(o.fail))
		}
		c.Emit(u)
		return
	}
	units, perUnit := 400, 8
	if c.Tier == "thorough" {
		units = 30000
	}
	if c.Mode == "plan" {
		c.Emit(map[string]interface{}{"ev": "plan", "units": units, "runs_per_unit": perUnit, "race_detector": simrt.RaceBuild})
		return
	}
	if !simrt.RaceBuild && c.Variant == "race" {
		c.Fatal("worker-race was not built with -race")
	}
	for run := c.Start; run < c.Start+c.Count && run < units; run++ {
		c.Begin(run)
		u := wk.NewUnit(run)
		var unitDigest uint64
		stop := false
		for i := 0; i < perUnit && !stop; i++ {
			cs := c09Generate(c, run, i)
			processLog = append(processLog, cs)
			before, _ := raceLogSize(c.RaceLog)
			o := c09Run(cs, false)
			if o.fail != nil && o.fail.Class == "invalid-case" {
				u.Counters["generator_discards"]++
				continue
			}
			u.Evals++
			u.Steps += o.res.Steps
			u.Counters["runs"]++
			u.Counters["operations"] += int64(o.ops)
			u.Counters["tasks"] += int64(o.res.Tasks)
			u.Counters["switches"] += o.res.Switches
			u.Counters["simulated_nanoseconds"] += o.res.SimNanos
			u.Counters["clock_reads"] += o.res.ClockReads
			u.Counters["timers_armed"] += o.res.TimersArmed
			u.Counters["timers_fired"] += o.res.TimersFired
			u.Counters["clock_jumps"] += o.res.ClockJumps
			u.Counters["sched_"+cs.Sched.Strategy]++
			if cs.Focus != "" {
				u.Counters["focus_"+cs.Focus]++
			}
			if len(cs.Obligatory) > 0 {
				u.Counters["runs_with_obligatory_directives"]++
			}
			if cs.Logger {
				u.Counters["runs_with_logger"]++
			}
			if cs.CatKind == faults.KindPO {
				u.Counters["runs_with_pomsg_bundle"]++
			}
			for k, n := range o.done {
				u.Counters["completed_"+k] += int64(n)
			}
			for _, t := range cs.Tasks {
				for _, op := range t {
					u.Counters["op_"+op.Op]++
					if op.Bad {
						u.Counters["op_"+op.Op+"_malformed"]++
					}
					if op.Ill {
						u.Counters["op_render_illtyped"]++
					}
					if op.Cat {
						u.Counters["op_with_catalogue"]++
					}
				}
			}
			sk := wk.FNV(cs.Bundle.Skeleton())
			u.Hash("interleaving", o.res.TraceHash^sk)
			u.Hash("case", sk^wk.FNV(fmt.Sprint(cs.Tasks)))
			for p := range o.res.SwitchPairs {
				u.Hash("switch_site_pair", uint64(uint32(p[0]))<<32|uint64(uint32(p[1])))
			}
			unitDigest = unitDigest*1099511628211 ^ o.res.TraceHash ^ uint64(o.res.Steps)
			if os.Getenv("VERIF_DEBUG") == "2" && fmt.Sprintf("%d.%d", run, i) == os.Getenv("VERIF_DEBUG_RUN") {
				for _, t := range o.res.Trace {
					fmt.Fprintf(os.Stderr, "T %d %s -> %d @%d\n", t[0], SiteName(int(t[1])), t[2], t[3])
				}
			}
			if os.Getenv("VERIF_DEBUG") != "" {
				fmt.Fprintf(os.Stderr, "run %d.%d trace=%x steps=%d switches=%d tasks=%d sched=%+v cat=%d\n", run, i, o.res.TraceHash, o.res.Steps, o.res.Switches, o.res.Tasks, cs.Sched, cs.CatKind)
			}
			if i == 0 {
				u.Sample(1, map[string]interface{}{"tasks": cs.Tasks, "sched": cs.Sched, "obligatory": cs.Obligatory, "steps": o.res.Steps, "switches": o.res.Switches,
					"first_file": trunc(cs.Bundle.Files[0].Source(), 300)})
			}
			if rf := checkRace(before); rf != nil {
				u.AddFail(rf)
				stop = true // the detector reports a given race once per process: restart
			}
			u.AddFail(attach(o.fail))
		}
		u.Hash("unit_digest", unitDigest^uint64(run)<<40)
		u.Observe("digest", fmt.Sprintf("%016x", unitDigest))
		c.Emit(u)
		if stop {
			c.Stop()
			return
		}
	}
}

var _ = ast.Pos(0)
