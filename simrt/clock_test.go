package simrt

import (
	"sync/atomic"
	"testing"
	"time"
)

// a worker that needs `work` steps races against a timeout: which one wins is decided by the
// speed of the simulated machine, and only by it.
func raceTimeout(ns int64, work int, timeout time.Duration, seed uint64) (timedOut bool, res *Result) {
	res = Run(Config{Budget: 1_000_000, Chooser: NewRandomChooser(seed, 3), NsPerStep: ns}, func() {
		done := make(chan int, 1)
		Go(1, func() {
			for i := 0; i < work; i++ {
				Yield(2)
			}
			Send(done, 1, 3)
		})
		var v int
		var ok bool
		var tv time.Time
		switch Select(4, false, CaseRecv(done, &v, &ok), CaseRecv(After(timeout), &tv, &ok)) {
		case 0:
		case 1:
			timedOut = true
		}
	})
	return
}

func TestClockTimeoutDependsOnSpeed(t *testing.T) {
	for seed := uint64(1); seed <= 20; seed++ {
		if to, res := raceTimeout(1, 500, time.Millisecond, seed); to || res.Deadlock || res.Budget || len(res.Leaks) != 0 {
			t.Fatalf("seed %d: fast machine timed out: %+v", seed, res)
		}
		if to, res := raceTimeout(1_000_000, 500, time.Millisecond, seed); !to || res.Deadlock || res.Budget {
			t.Fatalf("seed %d: slow machine did not time out: %+v", seed, res)
		} else if res.TimersArmed != 1 || res.TimersFired != 1 {
			t.Fatalf("timer statistics %+v", res)
		}
	}
}

func TestClockJumpWhenIdle(t *testing.T) {
	var before, after time.Time
	var woke bool
	res := Run(Config{Budget: 100000}, func() {
		before = Now()
		Sleep(time.Hour)
		after = Now()
		tm := NewTimer(48 * time.Hour)
		Recv(tm.C, 5) // a plain receive on the timer channel, through the model
		woke = true
	})
	if !woke || res.Deadlock || res.Budget {
		t.Fatalf("%+v", res)
	}
	if d := after.Sub(before); d < time.Hour || d > time.Hour+time.Second {
		t.Fatalf("slept %v", d)
	}
	if res.ClockJumps < 2 || res.Steps > 200 {
		t.Fatalf("an hour of sleep must cost a jump, not steps: %+v", res)
	}
}

func TestTimerStopAndReset(t *testing.T) {
	var fired, stopped, resetActive bool
	var n int32
	res := Run(Config{Budget: 100000, Chooser: NewRandomChooser(5, 2)}, func() {
		tm := NewTimer(time.Second)
		stopped = TimerStop(tm)
		if TimerStop(tm) {
			t.Error("second Stop reported an active timer")
		}
		resetActive = TimerReset(tm, time.Millisecond)
		Recv(tm.C, 1)
		fired = true
		AfterFunc(time.Minute, func() { atomic.AddInt32(&n, 1) })
		c := AfterFunc(time.Minute, func() { atomic.AddInt32(&n, 10) })
		TimerStop(c)
		Sleep(time.Hour)
	})
	if !stopped || resetActive || !fired || atomic.LoadInt32(&n) != 1 || res.Deadlock || res.Budget || len(res.Leaks) != 0 {
		t.Fatalf("stopped=%v resetActive=%v fired=%v n=%d %+v", stopped, resetActive, fired, n, res)
	}
}

func TestClockReplay(t *testing.T) {
	for seed := uint64(1); seed <= 10; seed++ {
		_, a := raceTimeout(1000, 300, 200*time.Microsecond, seed)
		ns := int64(1000)
		var out bool
		b := Run(Config{Budget: 1_000_000, Chooser: &Replay{List: a.Decisions}, NsPerStep: ns}, func() {
			done := make(chan int, 1)
			Go(1, func() {
				for i := 0; i < 300; i++ {
					Yield(2)
				}
				Send(done, 1, 3)
			})
			var v int
			var ok bool
			var tv time.Time
			out = Select(4, false, CaseRecv(done, &v, &ok), CaseRecv(After(200*time.Microsecond), &tv, &ok)) == 1
		})
		_ = out
		if a.TraceHash != b.TraceHash || a.Steps != b.Steps || b.Diverged {
			t.Fatalf("seed %d: replay differs: %x/%d vs %x/%d diverged=%v", seed, a.TraceHash, a.Steps, b.TraceHash, b.Steps, b.Diverged)
		}
	}
}
