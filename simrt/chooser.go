package simrt

// Chooser decides which runnable task runs next.  All methods are called from the scheduler
// goroutine only.
type Chooser interface {
	// TaskCreated announces a new task id at simulated step.
	TaskCreated(id int, step int64)
	// NextPreempt returns the simulated step at which the running task must next enter the
	// scheduler (0 = never, i.e. only at blocking operations and at the budget).
	NextPreempt(step int64) int64
	// Choose picks one of runnable (ascending ids, len >= 2).  from is the id of the task that
	// just ran if it is still runnable, else -1; def is the default choice.
	Choose(step int64, from int, runnable []int, def int) (int, bool)
	// Decisions returns the non-default choices made so far.
	Decisions() []Decision
}

// RNG is splitmix64: private to the simulator so that no math/rand state is shared with tasks.
type RNG struct{ s uint64 }

func NewRNG(seed uint64) *RNG { return &RNG{s: seed} }

//go:norace
func (r *RNG) Uint64() uint64 {
	r.s += 0x9e3779b97f4a7c15
	z := r.s
	z = (z ^ (z >> 30)) * 0xbf58476d1ce4e5b9
	z = (z ^ (z >> 27)) * 0x94d049bb133111eb
	return z ^ (z >> 31)
}

//go:norace
func (r *RNG) Intn(n int) int {
	if n <= 1 {
		return 0
	}
	return int(r.Uint64() % uint64(n))
}

//go:norace
func (r *RNG) Float() float64 { return float64(r.Uint64()>>11) / float64(1<<53) }

// Derive returns a seed that is a pure function of its arguments.
func Derive(parts ...uint64) uint64 {
	h := uint64(0x243f6a8885a308d3)
	for _, p := range parts {
		h = mix(h ^ p)
	}
	return h
}

type recorder struct{ dec []Decision }

//go:norace
func (r *recorder) note(step int64, chosen, def int) {
	if chosen != def {
		r.dec = append(r.dec, Decision{Step: step, Task: chosen})
	}
}

//go:norace
func (r *recorder) Decisions() []Decision { return r.dec }

// NoPreempt never pre-empts and takes the default at forced switches.
type NoPreempt struct{}

func (NoPreempt) TaskCreated(int, int64)                              {}
func (NoPreempt) NextPreempt(int64) int64                             { return 0 }
func (NoPreempt) Decisions() []Decision                               { return nil }
func (NoPreempt) Choose(_ int64, _ int, _ []int, def int) (int, bool) { return def, true }

// RandomChooser pre-empts after a geometrically distributed quantum (mean Quantum yields) and
// picks uniformly among the runnable tasks.
type RandomChooser struct {
	recorder
	rng     *RNG
	Quantum int
}

func NewRandomChooser(seed uint64, quantum int) *RandomChooser {
	if quantum < 1 {
		quantum = 1
	}
	return &RandomChooser{rng: NewRNG(seed), Quantum: quantum}
}

//go:norace
func (c *RandomChooser) TaskCreated(int, int64) {}

//go:norace
func (c *RandomChooser) NextPreempt(step int64) int64 {
	if c.Quantum <= 1 {
		return step + 1
	}
	// geometric with mean Quantum, capped
	n := int64(1)
	p := 1.0 / float64(c.Quantum)
	for c.rng.Float() > p && n < int64(c.Quantum)*8 {
		n++
	}
	return step + n
}

//go:norace
func (c *RandomChooser) Choose(step int64, from int, runnable []int, def int) (int, bool) {
	id := runnable[c.rng.Intn(len(runnable))]
	c.note(step, id, def)
	return id, true
}

// RoundRobin pre-empts at every yield and rotates through the runnable tasks.
type RoundRobin struct {
	recorder
	Quantum int
}

//go:norace
func (c *RoundRobin) TaskCreated(int, int64) {}

//go:norace
func (c *RoundRobin) NextPreempt(step int64) int64 {
	q := c.Quantum
	if q < 1 {
		q = 1
	}
	return step + int64(q)
}

//go:norace
func (c *RoundRobin) Choose(step int64, from int, runnable []int, def int) (int, bool) {
	id := runnable[0]
	for _, r := range runnable {
		if r > from {
			id = r
			break
		}
	}
	c.note(step, id, def)
	return id, true
}

// Coarse never pre-empts; at forced switches it picks a random runnable task.
type Coarse struct {
	recorder
	rng *RNG
}

func NewCoarse(seed uint64) *Coarse { return &Coarse{rng: NewRNG(seed)} }

//go:norace
func (c *Coarse) TaskCreated(int, int64) {}

//go:norace
func (c *Coarse) NextPreempt(int64) int64 { return 0 }

//go:norace
func (c *Coarse) Choose(step int64, from int, runnable []int, def int) (int, bool) {
	if from >= 0 {
		c.note(step, from, def)
		return from, true
	}
	id := runnable[c.rng.Intn(len(runnable))]
	c.note(step, id, def)
	return id, true
}

// PCT is the probabilistic concurrency testing scheduler: random distinct priorities, the
// highest-priority runnable task always runs, and at D change points (random steps below
// Horizon) the running task's priority drops below all others.
type PCT struct {
	recorder
	rng     *RNG
	prio    map[int]int64
	changes []int64 // ascending steps
	low     int64
}

func NewPCT(seed uint64, d int, horizon int64) *PCT {
	p := &PCT{rng: NewRNG(seed), prio: map[int]int64{}}
	if horizon < 1 {
		horizon = 1
	}
	for i := 0; i < d; i++ {
		p.changes = append(p.changes, 1+int64(p.rng.Uint64()%uint64(horizon)))
	}
	// insertion sort
	for i := 1; i < len(p.changes); i++ {
		for j := i; j > 0 && p.changes[j] < p.changes[j-1]; j-- {
			p.changes[j], p.changes[j-1] = p.changes[j-1], p.changes[j]
		}
	}
	return p
}

//go:norace
func (c *PCT) TaskCreated(id int, _ int64) {
	c.prio[id] = int64(1000 + c.rng.Intn(1<<30))
}

//go:norace
func (c *PCT) NextPreempt(step int64) int64 {
	for _, s := range c.changes {
		if s > step {
			return s
		}
	}
	return 0
}

//go:norace
func (c *PCT) Choose(step int64, from int, runnable []int, def int) (int, bool) {
	if from >= 0 {
		for len(c.changes) > 0 && c.changes[0] <= step {
			c.changes = c.changes[1:]
			c.low--
			c.prio[from] = c.low
		}
	}
	best := runnable[0]
	for _, r := range runnable[1:] {
		if c.prio[r] > c.prio[best] {
			best = r
		}
	}
	c.note(step, best, def)
	return best, true
}

// Replay follows an explicit decision list; everything not listed takes the default.
type Replay struct {
	List []Decision
	pos  int
}

//go:norace
func (c *Replay) TaskCreated(int, int64) {}

//go:norace
func (c *Replay) NextPreempt(step int64) int64 {
	for c.pos < len(c.List) && c.List[c.pos].Step <= step {
		c.pos++
	}
	if c.pos < len(c.List) {
		return c.List[c.pos].Step
	}
	return 0
}

//go:norace
func (c *Replay) Choose(step int64, from int, runnable []int, def int) (int, bool) {
	for i := c.pos; i < len(c.List) && c.List[i].Step <= step; i++ {
		if c.List[i].Step == step {
			id := c.List[i].Task
			for _, r := range runnable {
				if r == id {
					return id, true
				}
			}
			return def, false
		}
	}
	return def, true
}

//go:norace
func (c *Replay) Decisions() []Decision { return c.List }

// SpeedFor derives the speed of the simulated machine (nanoseconds per step) from a run's
// scheduling seed: from far faster than any timeout in the code under test to one second per
// statement (a stalled machine, on which every timer fires before the next statement).
func SpeedFor(seed uint64) int64 {
	return []int64{1, 1000, 100_000, 10_000_000, 1_000_000_000}[Derive(seed, 0xc10c)%5]
}
