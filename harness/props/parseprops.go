// Package props holds one worker implementation per claimed property.
package props

import (
	"encoding/json"
	"fmt"
	"os"
	"strings"

	"verif/harness/internal/corpus"
	"verif/harness/internal/pparse"
	"verif/harness/internal/wk"
	"verif/simrt"
)

// StepsPerByte is the time bound of C05: a parse of n bytes may take at most
// StepsPerByte*(n+64) simulated steps (every function entry, loop iteration and statement of
// soy is one step).  It is a constant of the harness, fixed at more than 20x the worst ratio
// measured over the whole corpus and the seeded workload on the pinned tree (see evidence key
// max_steps_per_byte), not a property of soy.
const StepsPerByte = 1500

// SiteTable maps site ids to source positions.
type SiteTable struct {
	Sites []struct {
		ID   int    `json:"id"`
		File string `json:"file"`
		Line int    `json:"line"`
		Kind string `json:"kind"`
		Func string `json:"func"`
	} `json:"sites"`
}

var siteTable *SiteTable

// LoadSites reads sites.json.
func LoadSites(path string) {
	if path == "" {
		return
	}
	b, err := os.ReadFile(path)
	if err != nil {
		return
	}
	var t SiteTable
	if json.Unmarshal(b, &t) == nil {
		siteTable = &t
	}
}

// SiteName renders a site id as file:line.
func SiteName(id int) string {
	if siteTable != nil && id >= 1 && id <= len(siteTable.Sites) {
		s := siteTable.Sites[id-1]
		if s.ID == id {
			return fmt.Sprintf("%s:%d %s", s.File, s.Line, s.Func)
		}
	}
	return fmt.Sprintf("site#%d", id)
}

// parseCase is the replay case of C05.
type parseCase struct {
	Call      pparse.Call      `json:"call"`
	Variant   int              `json:"sched_variant"`
	SchedSeed uint64           `json:"sched_seed"`
	Decisions []simrt.Decision `json:"decisions,omitempty"`
	Shrink    []string         `json:"shrink_strings,omitempty"`
	// Small, if set, is the same pumped input at a quarter of the size: the linearity oracle
	// compares the simulated time of the two parses.
	Small *pparse.Call `json:"small,omitempty"`
}

// SuperlinearFactor: a parse of 4n bytes may take at most this many times the simulated time of
// the parse of n bytes of the same pumped input (4 for linear time, 16 for quadratic).
const SuperlinearFactor = 7

// checkLinear applies the scale-free linearity oracle to a pair of pumped inputs.
func checkLinear(small, big pparse.Call, variant int, schedSeed uint64) (*wk.Failure, int64) {
	ch1, _ := pparse.ChooserFor(0, schedSeed)
	_, r1 := pparse.RunOne(small, ch1, int64(StepsPerByte)*int64(small.Len()+64), simrt.SpeedFor(schedSeed))
	ch2, _ := pparse.ChooserFor(0, schedSeed)
	_, r2 := pparse.RunOne(big, ch2, int64(StepsPerByte)*int64(big.Len()+64), simrt.SpeedFor(schedSeed))
	if r1.Budget || r2.Budget || r1.Deadlock || r2.Deadlock {
		return nil, r1.Steps + r2.Steps // reported by the absolute bound
	}
	if r2.Steps > SuperlinearFactor*r1.Steps+100_000 {
		pc := parseCase{Call: big, Small: &small, Variant: variant, SchedSeed: schedSeed}
		b, _ := json.Marshal(pc)
		return &wk.Failure{Class: "superlinear", Site: "parse time grows faster than the input",
			Detail: fmt.Sprintf("parsing %d bytes takes %d simulated steps but %d bytes of the same pumped input (%q...) take %d: factor %.1f for 4x the input (linear = 4, quadratic = 16; bound %d)",
				small.Len(), r1.Steps, big.Len(), trunc(big.Input[len(big.Input)-40:], 40), r2.Steps, float64(r2.Steps)/float64(r1.Steps+1), SuperlinearFactor), Replay: b}, r1.Steps + r2.Steps
	}
	return nil, r1.Steps + r2.Steps
}

type parseWork struct {
	corp  *corpus.Corpus
	exh   []exhJob // exhaustive prefix jobs
	nSeed int
}

type exhJob struct {
	item  int // index into items
	entry string
	wrap  bool
	from  int
	to    int // prefix lengths [from, to)
}

func (w *parseWork) item(i int) string {
	if i < len(w.corp.Files) {
		return w.corp.Files[i]
	}
	return w.corp.Strings[i-len(w.corp.Files)]
}

func newParseWork(c *wk.Ctx, seededQuick, seededThorough int) *parseWork {
	corp, err := corpus.Load(c.Repo)
	if err != nil || len(corp.Files) == 0 || len(corp.Strings) < 50 {
		c.Fatal("corpus load from %s failed: %v (files=%d strings=%d)", c.Repo, err, len(corp.Files), len(corp.Strings))
	}
	w := &parseWork{corp: corp}
	const chunkBytes = 600_000
	add := func(item int, entry string, wrap bool, n int) {
		// chunk prefixes so that a unit lexes roughly chunkBytes
		from := 0
		for from <= n {
			to := from
			vol := 0
			for to <= n && vol < chunkBytes {
				vol += to + 64
				to++
			}
			w.exh = append(w.exh, exhJob{item, entry, wrap, from, to})
			from = to
		}
	}
	for i := range corp.Files {
		add(i, "file", false, len(corp.Files[i]))
	}
	for j, s := range corp.Strings {
		i := len(corp.Files) + j
		add(i, "file", false, len(s))
		if len(s) <= 400 {
			add(i, "expr", false, len(s))
			if strings.Contains(s, "{") && !strings.Contains(s, "{namespace") {
				add(i, "file", true, len(s))
			}
		}
	}
	w.nSeed = seededQuick
	if c.Tier == "thorough" {
		w.nSeed = seededThorough
	}
	return w
}

// merge small exhaustive jobs into units of comparable cost
func (w *parseWork) exhUnits() [][]exhJob {
	var units [][]exhJob
	var cur []exhJob
	vol := 0
	for _, j := range w.exh {
		v := 0
		for k := j.from; k < j.to; k++ {
			v += k + 64
		}
		if vol > 0 && vol+v > 600_000 {
			units = append(units, cur)
			cur, vol = nil, 0
		}
		cur = append(cur, j)
		vol += v
	}
	if len(cur) > 0 {
		units = append(units, cur)
	}
	return units
}

func (w *parseWork) prefixCall(j exhJob, k int) pparse.Call {
	s := w.item(j.item)
	in := s[:k]
	if j.wrap {
		in = corpus.Wrap(s)[:len("{namespace t}\n/** */\n{template .x}\n")+k]
	}
	return pparse.Call{Entry: j.entry, Input: in, Kind: "prefix"}
}

// seededCall draws one input of the seeded workload.
func (w *parseWork) seededCall(r *simrt.RNG, thorough bool) pparse.Call {
	c := w.seededCall0(r, thorough)
	if c.Entry == "file" {
		// one file in twelve starts with a byte-order mark, a shebang, blank lines, ...
		if s, ok := corpus.WithPrelude(r, c.Input, 12); ok {
			c.Input, c.Kind = s, c.Kind+"+prelude"
		}
	}
	return c
}

func (w *parseWork) seededCall0(r *simrt.RNG, thorough bool) pparse.Call {
	corp := w.corp
	base := func() string {
		if r.Intn(8) == 0 {
			f := corp.Files[r.Intn(len(corp.Files))]
			if len(f) > 3000 {
				// a window of a large file keeps the cost of a mutant bounded
				a := r.Intn(len(f) - 2000)
				return f[a : a+500+r.Intn(1500)]
			}
			return f
		}
		return corp.Strings[r.Intn(len(corp.Strings))]
	}
	entry := "file"
	switch x := r.Intn(100); {
	case x < 45:
		s, kind := corpus.Mutate(r, base(), corp)
		if r.Intn(3) == 0 {
			s, _ = corpus.Mutate(r, s, corp)
			kind += "+2"
		}
		if r.Intn(4) == 0 {
			entry = "expr"
		} else if r.Intn(3) == 0 && !strings.Contains(s, "{namespace") {
			s = corpus.Wrap(s)
			if r.Intn(2) == 0 {
				s = s[:len(s)-len("\n{/template}\n")]
			}
		}
		return pparse.Call{Entry: entry, Input: s, Kind: kind}
	case x < 55:
		return pparse.Call{Entry: "file", Input: corpus.Skeleton(r), Kind: "skeleton"}
	case x < 70:
		n := 1 + r.Intn(5)
		if thorough {
			n = 1 + r.Intn(8)
		}
		s, kind := corpus.TagSequence(r, n)
		return pparse.Call{Entry: "file", Input: s, Kind: kind}
	case x < 85:
		return pparse.Call{Entry: "expr", Input: corpus.ExprSequence(r, 1+r.Intn(7)), Kind: "expr-seq"}
	case x < 88:
		size := 16 << 10
		if thorough {
			size = (16 + r.Intn(49)) << 10
		}
		s, kind := corpus.Pump(r, size)
		if r.Intn(3) == 0 {
			entry = "expr"
		}
		return pparse.Call{Entry: entry, Input: s, Kind: kind}
	default:
		if r.Intn(2) == 0 {
			entry = "expr"
		}
		return pparse.Call{Entry: entry, Input: corpus.RandomBytes(r, 1+r.Intn(60)), Kind: "random-bytes"}
	}
}

// checkParse runs one call and applies the C05 oracle.
func checkParse(call pparse.Call, variant int, schedSeed uint64, replay []simrt.Decision) (*wk.Failure, *simrt.Result, pparse.Outcome, string) {
	ch, vname := pparse.ChooserFor(variant, schedSeed)
	if replay != nil {
		ch = &simrt.Replay{List: replay}
	}
	budget := int64(StepsPerByte) * int64(call.Len()+64)
	out, res := pparse.RunOne(call, ch, budget, simrt.SpeedFor(schedSeed+uint64(variant)))
	mk := func(class, site, detail string) *wk.Failure {
		pc := parseCase{Call: call, Variant: variant, SchedSeed: schedSeed, Shrink: []string{"call.input"}}
		if len(res.Decisions) <= 5000 {
			pc.Decisions = res.Decisions
			if pc.Decisions == nil {
				pc.Decisions = []simrt.Decision{}
			}
		}
		b, _ := json.Marshal(pc)
		return &wk.Failure{Class: class, Site: site, Detail: detail, Replay: b}
	}
	switch {
	case res.Budget:
		return mk("budget", SiteName(res.AbortSite), fmt.Sprintf("parse of %d bytes (%s) not finished after %d simulated steps (bound %d*(n+64)); spinning at %s",
			call.Len(), call.Entry, res.Steps, StepsPerByte, SiteName(res.AbortSite))), res, out, vname
	case out.Panic != "":
		return mk("panic", out.PanicSite, "panic escaped the parse call: "+trunc(out.Panic, 300)), res, out, vname
	case res.MainPanic != nil:
		return mk("panic", pparse.SoySite(res.MainPanic.Stack), "panic: "+trunc(res.MainPanic.Value, 300)), res, out, vname
	case len(res.TaskPanics) > 0:
		tp := res.TaskPanics[0]
		return mk("scanner-panic", pparse.SoySite(tp.Stack), "panic in the scanner goroutine (would crash the process): "+trunc(tp.Value, 300)), res, out, vname
	case res.Deadlock:
		var bl []string
		for _, b := range res.Blocked {
			bl = append(bl, fmt.Sprintf("%s blocked in %s at %s", b.Name, b.BlockOp, SiteName(b.BlockSite)))
		}
		return mk("deadlock", strings.Join(bl, "; "), "no task can run and the parse call has not returned: "+strings.Join(bl, "; ")), res, out, vname
	case !out.Returned:
		return mk("no-return", "", "call neither returned nor panicked"), res, out, vname
	}
	return nil, res, out, vname
}

func trunc(s string, n int) string {
	if len(s) > n {
		return s[:n] + "..."
	}
	return s
}

// C05 is the worker entry point for property C05.
func C05(c *wk.Ctx) {
	LoadSites(c.Sites)
	if c.Mode == "replay" {
		var pc parseCase
		readReplay(c, &pc)
		if pc.Small != nil {
			f, steps := checkLinear(*pc.Small, pc.Call, pc.Variant, pc.SchedSeed)
			u := wk.NewUnit(0)
			u.Evals, u.Steps = 2, steps
			u.AddFail(f)
			c.Emit(u)
			return
		}
		var dec []simrt.Decision
		if pc.Decisions != nil {
			dec = pc.Decisions
		}
		f, res, _, _ := checkParse(pc.Call, pc.Variant, pc.SchedSeed, dec)
		u := wk.NewUnit(0)
		u.Evals = 1
		u.Steps = res.Steps
		u.AddFail(f)
		c.Emit(u)
		return
	}
	w := newParseWork(c, 150, 30000)
	units := w.exhUnits()
	total := len(units) + w.nSeed
	if c.Mode == "plan" {
		c.Emit(map[string]interface{}{"ev": "plan", "units": total, "exhaustive_units": len(units),
			"corpus_files": len(w.corp.Files), "corpus_strings": len(w.corp.Strings)})
		return
	}
	for run := c.Start; run < c.Start+c.Count && run < total; run++ {
		c.Begin(run)
		u := wk.NewUnit(run)
		var maxRatio float64
		var digest uint64
		do := func(call pparse.Call, idx int) bool {
			seed := c.UnitSeed(run, uint64(idx))
			f, res, out, vname := checkParse(call, idx, seed, nil)
			u.Evals++
			u.Steps += res.Steps
			u.Counters["sched_"+vname]++
			u.Counters["entry_"+call.Entry]++
			u.Counters["kind_"+call.Kind]++
			u.Counters["switches"] += res.Switches
			u.Counters["simulated_nanoseconds"] += res.SimNanos
			u.Counters["clock_reads"] += res.ClockReads
			u.Counters["timers_armed"] += res.TimersArmed
			u.Counters["timers_fired"] += res.TimersFired
			u.Counters["clock_jumps"] += res.ClockJumps
			u.Counters["chan_ops"] += res.ChanOps
			if out.Err != "" {
				u.Counters["returned_error"]++
			} else if out.Returned {
				u.Counters["returned_tree"]++
			}
			digest = digest*1099511628211 ^ res.TraceHash ^ uint64(res.Steps)<<1 ^ wk.FNV(out.Err)
			u.Hash("input", wk.FNV(call.Entry+"\x00"+call.Input))
			u.Hash("interleaving", res.TraceHash^wk.FNV(call.Input))
			if r := float64(res.Steps) / float64(call.Len()+64); r > maxRatio && f == nil {
				maxRatio = r
			}
			if idx%97 == 0 {
				u.Sample(2, map[string]interface{}{"entry": call.Entry, "kind": call.Kind, "input": trunc(call.Input, 160), "sched": vname,
					"steps": res.Steps, "switches": res.Switches, "error": trunc(out.Err, 120)})
			}
			u.AddFail(f)
			return true
		}
		if run < len(units) {
			idx := 0
		outer:
			for _, j := range units[run] {
				for k := j.from; k < j.to; k++ {
					if !do(w.prefixCall(j, k), idx) {
						break outer
					}
					idx++
				}
			}
			u.Counters["exhaustive_prefix_units"]++
		} else {
			r := simrt.NewRNG(c.UnitSeed(run, 0xabcdef))
			for i := 0; i < 100; i++ {
				if !do(w.seededCall(r, c.Tier == "thorough"), i) {
					break
				}
			}
			// linearity: the same pumped input at n and 4n bytes
			// (a quadratic term with a small constant only dominates beyond ~10 KB: the linear part costs
			// ~60 steps per byte)
			size, pairs := 12<<10, 1
			if c.Tier == "thorough" {
				size, pairs = 16<<10, 2
			}
			for i := 0; i < pairs; i++ {
				small, big, kind := corpus.PumpPair(r, size)
				entry := "file"
				if r.Intn(4) == 0 {
					entry = "expr"
				}
				f, steps := checkLinear(pparse.Call{Entry: entry, Input: small, Kind: kind}, pparse.Call{Entry: entry, Input: big, Kind: kind}, i, c.UnitSeed(run, uint64(7000+i)))
				u.Evals += 2
				u.Steps += steps
				u.Counters["linearity_pairs"]++
				u.AddFail(f)
			}
		}
		u.Counters["max_steps_per_byte_x1000"] = int64(maxRatio * 1000)
		u.Observe("digest", fmt.Sprintf("%016x", digest))
		c.Emit(u)
	}
}

func readReplay(c *wk.Ctx, v interface{}) {
	b, err := os.ReadFile(c.File)
	if err != nil {
		c.Fatal("replay file: %v", err)
	}
	var wrap struct {
		Case json.RawMessage `json:"case"`
	}
	if err := json.Unmarshal(b, &wrap); err != nil || wrap.Case == nil {
		c.Fatal("replay file %s has no case: %v", c.File, err)
	}
	if err := json.Unmarshal(wrap.Case, v); err != nil {
		c.Fatal("replay case: %v", err)
	}
}
