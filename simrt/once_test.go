package simrt

import (
	"sync"
	"testing"
)

func TestOnceDo(t *testing.T) {
	for seed := uint64(1); seed <= 20; seed++ {
		var once sync.Once
		n := 0
		res := Run(Config{Budget: 100000, Chooser: NewRandomChooser(seed, 1)}, func() {
			var wg sync.WaitGroup
			for k := 0; k < 3; k++ {
				wg.Add(1)
				Spawn("w", func() {
					defer wg.Done()
					for i := 0; i < 5; i++ {
						Yield(1)
						OnceDo(&once, func() { Yield(2); n++; Yield(3) })
						Yield(4)
					}
				})
			}
			Idle()
			wg.Wait()
		})
		if res.Budget || n != 1 {
			t.Fatalf("seed %d: budget=%v n=%d steps=%d", seed, res.Budget, n, res.Steps)
		}
	}
}
