package gen

import (
	"fmt"
	"strings"

	"verif/simrt"
)

type ty int

const (
	tInt ty = iota
	tSmall
	tStr
	tHtml
	tBool
	tFloat
	tListInt
	tListStr
	tMap
	tListMap
	tOptStr
)

type poolVar struct {
	name string
	t    ty
}

// The fixed parameter pool: a name always has the same type, so data="all" and data="$m"
// calls are well typed whenever the names match.
var pool = []poolVar{
	{"a", tInt}, {"n", tSmall}, {"b", tStr}, {"h", tHtml}, {"c", tBool}, {"f", tFloat},
	{"xs", tListInt}, {"ss", tListStr}, {"m", tMap}, {"ms", tListMap}, {"o", tOptStr},
}

var mapFields = []poolVar{{"a", tInt}, {"n", tSmall}, {"b", tStr}, {"c", tBool}, {"xs", tListInt}}

func poolType(name string) (ty, bool) {
	for _, p := range pool {
		if p.name == name {
			return p.t, true
		}
	}
	return 0, false
}

type svar struct {
	ref  string // how to reference it, e.g. "$a", "$m.a", "$i1"
	t    ty
	root string // root variable name (for usage tracking)
	loop bool
}

// Opts tunes generation.
type Opts struct {
	MaxFiles     int
	MaxTemplates int // per file
	MaxNodes     int
	MaxDepth     int
	Msgs         bool     // generate msg nodes
	MsgHeavy     bool     // bias towards messages with colliding placeholders (C10/C13)
	MapLiterals  bool     // bias towards map literals in printed and error positions (C13)
	NoOrderFuncs bool     // exclude keys() and randomInt() (equality oracles)
	Directives   []string // extra directives that may appear in chains, e.g. "|vfail"
	Funcs        []string // extra functions taking one argument and returning it
	ListFuncs    []string // extra functions taking (list, value) and returning a list
	// CaseTwins: now and then a template is named like another of its namespace but for the case of
	// the first letter (t3 / T3); SameFileNames: now and then two files are added under one name.
	CaseTwins     bool
	SameFileNames bool
	// ModeFunc: the zero-argument function vmode() is installed (the harness re-registers it between renders)
	ModeFunc bool
	// UnnamedFiles: now and then a file is added under the empty name
	UnnamedFiles bool
	// ParamNamedLocals: most value lets are named like a pool param (of the let's type) that the
	// template itself does not declare, so that a binding left behind by one render meets a param of
	// that name in another template
	ParamNamedLocals bool
	// Focus names one rarely generated construct that most templates of this case will contain
	// (swarm testing: every run concentrates on one feature, so that rare features meet the
	// schedules, histories and faults too).  "" = none; see Features.
	Focus        string
	Globals      bool
	IJ           bool
	DropRequired float64 // probability that a call omits a required param (a compile error that prints the call)
}

// DefaultOpts are the bounds of DESIGN.md 4 (C06).
func DefaultOpts() Opts {
	return Opts{MaxFiles: 4, MaxTemplates: 5, MaxNodes: 6, MaxDepth: 3, Msgs: true, NoOrderFuncs: true, Globals: true, IJ: true}
}

type tsig struct {
	file     int
	ns       string
	name     string
	params   []Param
	cost     int  // estimated number of node executions of one render
	textOnly bool // the body is raw text only
}

type g struct {
	r       *simrt.RNG
	o       Opts
	c       *Case
	sigs    []tsig // signatures of templates generated so far (callable)
	nvar    int
	used    map[string]bool
	scope   []svar
	loops   []string
	cur     tsig
	usesIJ  bool
	aliases map[int]map[string]string // file -> alias last segment -> namespace
	lastMsg *Node
	mult    int // product of the loop bounds around the node being generated
	cost    int // estimated node executions of the template being generated
}

// costLimit bounds the estimated work of one render so that call chains through loops cannot
// blow up exponentially.
const costLimit = 400

func (x *g) pick(n int) int        { return x.r.Intn(n) }
func (x *g) chance(p float64) bool { return x.r.Float() < p }

var words = []string{"hello", "world", "soy", "x", "Lorem ipsum", "a b", "tofu", "42", "é", "日本", "end."}
var htmlBits = []string{"<b>", "</b>", "<br/>", "<a href=\"#\">", "</a>", "<i>", "</i>", "&amp;", "\"", "'", " ", "\n", "  \n  ", "<", ">"}
var specials = []string{"<", ">", "&", "\"", "'", "<script>", "a<b", "x&y", "\"q\"", "it's"}

func (x *g) text() string {
	var sb strings.Builder
	for i, n := 0, 1+x.pick(3); i < n; i++ {
		if x.chance(0.3) {
			sb.WriteString(htmlBits[x.pick(len(htmlBits))])
		} else {
			sb.WriteString(words[x.pick(len(words))])
		}
		if x.chance(0.5) {
			sb.WriteString(" ")
		}
	}
	return sb.String()
}

func (x *g) strLit() string {
	s := words[x.pick(len(words))]
	if x.chance(0.35) {
		s += specials[x.pick(len(specials))]
	}
	if x.chance(0.1) {
		s += "\n"
	}
	return Quote(s)
}

func (x *g) vars(t ty) []svar {
	var out []svar
	for _, v := range x.scope {
		if v.t == t || (t == tInt && v.t == tSmall) || (t == tStr && v.t == tHtml) {
			out = append(out, v)
		}
	}
	return out
}

func (x *g) use(v svar) string {
	x.used[v.root] = true
	return v.ref
}

func paren(e string) string {
	if strings.ContainsAny(e, " ?") {
		return "(" + e + ")"
	}
	return e
}

// expr generates an expression of type t.
func (x *g) expr(t ty, d int) string {
	vs := x.vars(t)
	if len(vs) > 0 && (d <= 0 || x.chance(0.55)) {
		return x.use(vs[x.pick(len(vs))])
	}
	switch t {
	case tInt, tSmall:
		if d <= 0 {
			return fmt.Sprint(x.pick(10))
		}
		switch x.pick(12) {
		case 0:
			return paren(x.expr(tInt, d-1)) + " + " + paren(x.expr(tInt, d-1))
		case 1:
			return paren(x.expr(tInt, d-1)) + " - " + paren(x.expr(tSmall, d-1))
		case 2:
			return paren(x.expr(tSmall, d-1)) + " * " + fmt.Sprint(1+x.pick(4))
		case 3:
			return paren(x.expr(tInt, d-1)) + " % " + fmt.Sprint(2+x.pick(5))
		case 4:
			if l := x.listExpr(d - 1); l != "" {
				return "length(" + l + ")"
			}
		case 5:
			if len(x.loops) > 0 {
				return "index($" + x.loops[len(x.loops)-1] + ")"
			}
		case 6:
			return paren(x.expr(tBool, d-1)) + " ? " + paren(x.expr(tInt, d-1)) + " : " + paren(x.expr(tInt, d-1))
		case 7:
			return []string{"min", "max"}[x.pick(2)] + "(" + x.expr(tInt, d-1) + ", " + x.expr(tInt, d-1) + ")"
		case 8:
			return []string{"floor", "ceiling", "round"}[x.pick(3)] + "(" + x.expr(tFloat, d-1) + ")"
		case 9:
			if x.o.Globals {
				return x.global(tInt)
			}
		case 10:
			if x.o.IJ {
				x.usesIJ = true
				return "$ij.n"
			}
		}
		return fmt.Sprint(x.pick(100))
	case tFloat:
		if d <= 0 {
			return []string{"0.5", "1.25", "2.0", "10.75"}[x.pick(4)]
		}
		switch x.pick(4) {
		case 0:
			return paren(x.expr(tInt, d-1)) + " / " + fmt.Sprint(1+x.pick(4))
		case 1:
			return paren(x.expr(tFloat, d-1)) + " * " + paren(x.expr(tInt, d-1))
		case 2:
			return "round(" + x.expr(tFloat, d-1) + ", 2)"
		}
		return []string{"0.5", "1.25", "3.0"}[x.pick(3)]
	case tStr, tHtml, tOptStr:
		if d <= 0 {
			return x.strLit()
		}
		switch x.pick(8) {
		case 0:
			return paren(x.expr(tStr, d-1)) + " + " + paren(x.expr(tStr, d-1))
		case 1:
			return paren(x.expr(tStr, d-1)) + " + " + paren(x.expr(tInt, d-1))
		case 2:
			return paren(x.expr(tBool, d-1)) + " ? " + paren(x.expr(tStr, d-1)) + " : " + paren(x.expr(tStr, d-1))
		case 3:
			if os := x.vars(tOptStr); len(os) > 0 {
				return x.use(os[0]) + " ?: " + x.strLit()
			}
		case 4:
			if x.o.Globals {
				return x.global(tStr)
			}
		case 5:
			if x.o.IJ {
				x.usesIJ = true
				return "$ij.user"
			}
		case 6:
			if x.o.ModeFunc && x.chance(0.3) {
				return "vmode()"
			}
			if len(x.o.Funcs) > 0 {
				return x.o.Funcs[x.pick(len(x.o.Funcs))] + "(" + x.expr(tStr, d-1) + ")"
			}
		}
		return x.strLit()
	case tBool:
		if d <= 0 {
			return []string{"true", "false"}[x.pick(2)]
		}
		switch x.pick(10) {
		case 0:
			return paren(x.expr(tInt, d-1)) + []string{" < ", " <= ", " > ", " >= ", " == ", " != "}[x.pick(6)] + paren(x.expr(tInt, d-1))
		case 1:
			return "not " + paren(x.expr(tBool, d-1))
		case 2:
			return paren(x.expr(tBool, d-1)) + []string{" and ", " or "}[x.pick(2)] + paren(x.expr(tBool, d-1))
		case 3:
			return paren(x.expr(tStr, d-1)) + " == " + paren(x.expr(tStr, d-1))
		case 4:
			if os := x.vars(tOptStr); len(os) > 0 {
				return "isNonnull(" + x.use(os[0]) + ")"
			}
		case 5:
			return "strContains(" + x.expr(tStr, d-1) + ", " + x.strLit() + ")"
		case 6:
			if len(x.loops) > 0 {
				return []string{"isFirst", "isLast"}[x.pick(2)] + "($" + x.loops[len(x.loops)-1] + ")"
			}
		case 7:
			return "hasData()"
		}
		return []string{"true", "false"}[x.pick(2)]
	case tListInt:
		if l := x.vars(tListInt); len(l) > 0 && x.chance(0.6) {
			return x.use(l[x.pick(len(l))])
		}
		if len(x.o.ListFuncs) > 0 && d > 0 && x.chance(0.3) {
			return x.o.ListFuncs[x.pick(len(x.o.ListFuncs))] + "(" + x.expr(tListInt, d-1) + ", " + fmt.Sprint(x.pick(9)) + ")"
		}
		switch x.pick(3) {
		case 0:
			return fmt.Sprintf("range(%d)", x.pick(4))
		case 1:
			return fmt.Sprintf("range(%d, %d, %d)", x.pick(3), 2+x.pick(5), 1+x.pick(2))
		}
		return "[" + x.expr(tInt, d-1) + ", " + fmt.Sprint(x.pick(9)) + "]"
	case tListStr:
		return "[" + x.strLit() + ", " + x.expr(tStr, d-1) + "]"
	case tMap:
		if x.chance(0.3) {
			if ms := x.vars(tMap); len(ms) > 0 {
				// a caller-supplied map on either side, next to a small or an empty literal
				switch x.pick(5) {
				case 0:
					// the small literal comes first and may hold a key the map does not have
					return "augmentMap([" + []string{"'b'", "'z'", "'extra'"}[x.pick(3)] + ": " + x.expr(tStr, d-1) + "], " + x.use(ms[0]) + ")"
				case 1:
					return "augmentMap(" + x.use(ms[0]) + ", [:])"
				case 2:
					return "augmentMap([:], " + x.use(ms[0]) + ")"
				}
				return "augmentMap(" + x.use(ms[0]) + ", ['b': " + x.expr(tStr, d-1) + "])"
			}
		}
		return x.mapLit(d)
	case tListMap:
		return "[" + x.mapLit(d) + "]"
	}
	return "null"
}

// mapLit builds a map literal typed like the pool's map.
func (x *g) mapLit(d int) string {
	parts := []string{
		"'a': " + x.expr(tInt, d-1),
		"'b': " + x.expr(tStr, d-1),
		"'c': " + x.expr(tBool, d-1),
		"'n': " + fmt.Sprint(x.pick(4)),
		"'xs': [" + fmt.Sprint(x.pick(9)) + ", " + fmt.Sprint(x.pick(9)) + "]",
	}
	if x.o.MapLiterals && x.chance(0.5) {
		// keys that need escaping when they are emitted as JavaScript
		parts = append(parts, []string{"'k\"q': 1", "'x-y': 2", "'é': 3", "'a b': 4"}[x.pick(4)], []string{"'q\\'s': 5", "'</k>': 6"}[x.pick(2)])
	}
	// source order of the keys varies
	for i := len(parts) - 1; i > 0; i-- {
		j := x.pick(i + 1)
		parts[i], parts[j] = parts[j], parts[i]
	}
	return "[" + strings.Join(parts, ", ") + "]"
}

func (x *g) listExpr(d int) string {
	for _, t := range []ty{tListInt, tListStr, tListMap} {
		if vs := x.vars(t); len(vs) > 0 && x.chance(0.7) {
			return x.use(vs[x.pick(len(vs))])
		}
	}
	return x.expr(tListInt, d)
}

func (x *g) global(t ty) string {
	var name string
	var v DVal
	switch t {
	case tInt:
		name = fmt.Sprintf("app.G_INT%d", x.pick(3))
		v = DVal{T: "int", I: int64(3 + x.pick(5))}
	default:
		name = fmt.Sprintf("G_STR%d", x.pick(3))
		v = DVal{T: "str", S: []string{"glob", "g<l>ob", "g&"}[x.pick(3)]}
	}
	for _, kv := range x.c.Globals {
		if kv.K == name {
			return name
		}
	}
	x.c.Globals = append(x.c.Globals, KV{name, v})
	return name
}

func (x *g) fresh(prefix string) string {
	x.nvar++
	return fmt.Sprintf("%s%d", prefix, x.nvar)
}

var dirChoices = []string{"|escapeHtml", "|noAutoescape", "|id", "|escapeUri", "|escapeJsString", "|changeNewlineToBr", "|json"}

func (x *g) directives(t ty) []string {
	if !x.chance(0.4) {
		return nil
	}
	var out []string
	for i, n := 0, 1+x.pick(2); i < n; i++ {
		switch k := x.pick(10); {
		case k < 5:
			out = append(out, dirChoices[x.pick(len(dirChoices))])
		case k == 5:
			out = append(out, fmt.Sprintf("|insertWordBreaks:%d", 2+x.pick(6)))
		case k == 6:
			out = append(out, fmt.Sprintf("|truncate:%d", 4+x.pick(8)))
		case k == 7:
			out = append(out, fmt.Sprintf("|truncate:%d,%v", 4+x.pick(8), x.chance(0.5)))
		default:
			if len(x.o.Directives) > 0 {
				d := x.o.Directives[x.pick(len(x.o.Directives))]
				if d == "|vwrap" {
					d += ":['(', " + x.strLit() + "]"
				}
				out = append(out, d)
			}
		}
	}
	return out
}

var printable = []ty{tInt, tStr, tHtml, tBool, tFloat, tStr, tHtml, tInt}

func (x *g) printNode() *Node {
	t := printable[x.pick(len(printable))]
	if x.o.MapLiterals && x.chance(0.3) {
		t = tMap
	} else if x.chance(0.08) {
		t = []ty{tListInt, tMap, tListStr}[x.pick(3)]
	}
	return &Node{K: "print", E: x.expr(t, 2), Dirs: x.directives(t)}
}

func (x *g) withScope(vs []svar, loop string, f func()) {
	n := len(x.scope)
	x.scope = append(x.scope, vs...)
	if loop != "" {
		x.loops = append(x.loops, loop)
		x.mult *= 5
	}
	f()
	x.scope = x.scope[:n]
	if loop != "" {
		x.loops = x.loops[:len(x.loops)-1]
		x.mult /= 5
	}
}

func elemVars(name string, t ty) []svar {
	switch t {
	case tListInt:
		return []svar{{ref: "$" + name, t: tInt, root: name, loop: true}}
	case tListStr:
		return []svar{{ref: "$" + name, t: tStr, root: name, loop: true}}
	case tListMap:
		vs := []svar{{ref: "$" + name, t: tMap, root: name, loop: true}}
		for _, f := range mapFields {
			vs = append(vs, svar{ref: "$" + name + "." + f.name, t: f.t, root: name})
		}
		return vs
	}
	return nil
}

// block generates a node list; every let it introduces is used before the block ends.
func (x *g) block(depth, maxNodes int, inMsg bool) []*Node {
	var out []*Node
	n := 1 + x.pick(maxNodes)
	base := len(x.scope)
	var lets []string
	for i := 0; i < n; i++ {
		nd := x.node(depth)
		if nd == nil {
			continue
		}
		out = append(out, nd)
		if nd.K == "letv" || nd.K == "letc" {
			lets = append(lets, nd.Var)
		}
	}
	for _, l := range lets {
		if !x.used[l] {
			out = append(out, &Node{K: "print", E: "$" + l})
			x.used[l] = true
		}
	}
	x.scope = x.scope[:base]
	return out
}

func (x *g) node(depth int) *Node {
	k := x.pick(100)
	x.cost += x.mult
	leaf := depth >= x.o.MaxDepth || x.cost > costLimit
	switch {
	case k < 22:
		return &Node{K: "text", S: x.text()}
	case k < 47:
		return x.printNode()
	case k < 55 && !leaf:
		n := &Node{K: "if", E: x.expr(tBool, 2), Body: x.block(depth+1, 3, false)}
		if x.chance(0.4) {
			n.Conds = append(n.Conds, &Cond{E: x.expr(tBool, 1), Body: x.block(depth+1, 2, false)})
		}
		if x.chance(0.5) {
			n.Else = x.block(depth+1, 2, false)
		}
		return n
	case k < 59 && !leaf:
		n := &Node{K: "switch"}
		if x.chance(0.5) {
			n.E = x.expr(tSmall, 1)
			n.Conds = append(n.Conds, &Cond{E: "0", Body: x.block(depth+1, 2, false)}, &Cond{E: "1, 2", Body: x.block(depth+1, 2, false)})
		} else {
			n.E = x.expr(tStr, 1)
			n.Conds = append(n.Conds, &Cond{E: x.strLit(), Body: x.block(depth+1, 2, false)})
		}
		if x.chance(0.7) {
			n.Else = x.block(depth+1, 2, false)
			if x.chance(0.3) {
				n.S = "default-first" // the {default} clause need not be the last one
			}
		}
		return n
	case k < 66 && !leaf:
		// foreach over a list variable
		var cands []svar
		for _, t := range []ty{tListInt, tListStr, tListMap} {
			cands = append(cands, x.vars(t)...)
		}
		if len(cands) == 0 {
			return x.printNode()
		}
		lv := cands[x.pick(len(cands))]
		name := x.fresh("i")
		n := &Node{K: "foreach", Var: name, E: x.use(lv)}
		x.withScope(elemVars(name, lv.t), name, func() { n.Body = x.block(depth+1, 3, false) })
		if x.chance(0.4) {
			n.Else = x.block(depth+1, 1, false)
		}
		return n
	case k < 70 && !leaf:
		name := x.fresh("r")
		n := &Node{K: "for", Var: name}
		switch x.pick(3) {
		case 0:
			n.E = fmt.Sprintf("range(%d)", 1+x.pick(4))
		case 1:
			n.E = fmt.Sprintf("range(%d, %d)", x.pick(3), 3+x.pick(3))
		default:
			// bounded whatever the expression evaluates to: the cost estimate counts a loop as 5 iterations
			n.E = "range(min(" + x.expr(tSmall, 1) + ", 5))"
		}
		x.withScope([]svar{{ref: "$" + name, t: tInt, root: name, loop: true}}, name, func() { n.Body = x.block(depth+1, 2, false) })
		return n
	case k < 74:
		name := x.fresh("l")
		t := printable[x.pick(len(printable))]
		if x.o.ParamNamedLocals && x.chance(0.7) {
			for _, pv := range pool {
				if pv.t == t && !x.inScope(pv.name) {
					name = pv.name
					break
				}
			}
		}
		n := &Node{K: "letv", Var: name, E: x.expr(t, 2)}
		x.scope = append(x.scope, svar{ref: "$" + name, t: t, root: name})
		return n
	case k < 77 && !leaf:
		name := x.fresh("l")
		n := &Node{K: "letc", Var: name}
		if x.o.Msgs && x.chance(0.3) {
			// a content block that holds nothing but text and a message
			n.Body = []*Node{{K: "text", S: x.text()}, {K: "msg", S: "in a block", Body: []*Node{{K: "text", S: words[x.pick(len(words))] + " " + words[x.pick(len(words))]}}}}
		} else {
			n.Body = x.block(depth+1, 2, false)
		}
		x.scope = append(x.scope, svar{ref: "$" + name, t: tStr, root: name})
		return n
	case k < 86:
		if c := x.call(depth); c != nil {
			return c
		}
		return x.printNode()
	case k < 88:
		if x.chance(0.5) {
			return &Node{K: "css", S: "cls-" + fmt.Sprint(x.pick(5))}
		}
		return &Node{K: "css", E: x.expr(tStr, 1), S: "suffix"}
	case k < 90 && !leaf:
		return &Node{K: "log", Body: x.block(depth+1, 2, false)}
	case k < 92:
		return &Node{K: "literal", S: []string{"{x} <b>", "}}{{", "lit & <i>", "{/lit}"}[x.pick(4)]}
	case k < 95:
		return &Node{K: "sp", S: []string{"sp", "nil", "lb", "rb", "\\n", "\\t", "\\r"}[x.pick(7)]}
	case k < 99:
		if x.o.Msgs {
			return x.msg()
		}
		return &Node{K: "text", S: x.text()}
	default:
		return &Node{K: "debugger"}
	}
}

// msgBody generates raw text, html tags and print placeholders.
func (x *g) msgBody(n int) []*Node {
	var out []*Node
	for i := 0; i < n; i++ {
		switch x.pick(6) {
		case 0, 1:
			out = append(out, &Node{K: "text", S: words[x.pick(len(words))] + " "})
		case 2:
			out = append(out, &Node{K: "text", S: []string{"<b>", "</b>", "<a href=\"x\">", "</a>", "<br/>", "<i class=\"k\">", "<a href=\"y\" phname=\"link\">", "<span phname=\"emphasised_part\">", "</span>"}[x.pick(9)]})
		default:
			out = append(out, x.placeholder())
		}
	}
	return out
}

func (x *g) placeholder() *Node {
	// placeholders whose base names collide are the interesting ones
	if x.o.MsgHeavy || x.chance(0.4) {
		type cand struct{ ref, root string }
		var cands []cand
		for _, v := range x.scope {
			if v.t == tMap && !strings.Contains(v.ref, ".") {
				cands = append(cands, cand{v.ref + ".b", v.root}, cand{v.ref + ".a", v.root}, cand{v.ref + ".n", v.root})
			}
		}
		for _, v := range x.scope {
			if (v.t == tStr || v.t == tInt || v.t == tSmall) && !strings.Contains(v.ref, ".") {
				cands = append(cands, cand{v.ref, v.root})
			}
		}
		if len(cands) > 0 {
			if x.o.MapLiterals && x.chance(0.3) {
				return &Node{K: "print", E: x.mapLit(1)} // (the parser has no indexing of a literal)
			}
			c := cands[x.pick(len(cands))]
			x.used[c.root] = true
			return &Node{K: "print", E: c.ref}
		}
	}
	t := []ty{tStr, tInt, tHtml}[x.pick(3)]
	return &Node{K: "print", E: x.expr(t, 1), Dirs: x.directives(t)}
}

// twinOf returns a copy of a generated message whose placeholders are other expressions with the
// same base names (so that the two messages share id and placeholder names), or nil.
func (x *g) twinOf(m *Node) *Node {
	swap := map[string]string{"$m.b": "$b", "$b": "$m.b", "$m.a": "$a", "$a": "$m.a", "$m.n": "$n", "$n": "$m.n"}
	avail := func(e string) bool {
		root := strings.SplitN(strings.TrimPrefix(e, "$"), ".", 2)[0]
		return x.hasVar(root)
	}
	changed := false
	var marks []string // variables the twin uses: marked only if the twin is kept
	var cp func(ns []*Node) []*Node
	cp = func(ns []*Node) []*Node {
		var out []*Node
		for _, n := range ns {
			c := *n
			if c.K == "print" && len(c.Dirs) == 0 {
				if o, ok := swap[c.E]; ok && avail(o) {
					c.E = o
					marks = append(marks, strings.SplitN(strings.TrimPrefix(o, "$"), ".", 2)[0])
					changed = true
				}
			}
			c.Body = cp(n.Body)
			c.Else = cp(n.Else)
			if n.Conds != nil {
				c.Conds = nil
				for _, cd := range n.Conds {
					c.Conds = append(c.Conds, &Cond{E: cd.E, Body: cp(cd.Body)})
				}
			}
			out = append(out, &c)
		}
		return out
	}
	t := cp([]*Node{m})[0]
	if !changed {
		return nil
	}
	// the original may come from another template or an enclosing block that has ended: every
	// variable the twin mentions must exist here
	ok := true
	var chk func(ns []*Node)
	chk = func(ns []*Node) {
		for _, n := range ns {
			for i := 0; i < len(n.E); i++ {
				if n.E[i] != '$' {
					continue
				}
				j := i + 1
				for j < len(n.E) && (n.E[j] == '_' || n.E[j] >= 'a' && n.E[j] <= 'z' || n.E[j] >= 'A' && n.E[j] <= 'Z' || n.E[j] >= '0' && n.E[j] <= '9') {
					j++
				}
				if name := n.E[i+1 : j]; name != "ij" && !x.inScope(name) {
					ok = false
				}
			}
			chk(n.Body)
			chk(n.Else)
			for _, cd := range n.Conds {
				chk(cd.Body)
			}
		}
	}
	chk([]*Node{t})
	if !ok {
		return nil
	}
	for _, m := range marks {
		x.used[m] = true
	}
	return t
}

// inScope reports whether $name (a param, let or loop variable) is visible here.
func (x *g) inScope(name string) bool {
	for _, v := range x.scope {
		if v.root == name {
			return true
		}
	}
	return false
}

func (x *g) msg() *Node {
	if x.lastMsg != nil && x.chance(0.35) {
		if t := x.twinOf(x.lastMsg); t != nil {
			return t
		}
	}
	n := x.msg0()
	x.lastMsg = n
	return n
}

func (x *g) msg0() *Node {
	if x.o.MsgHeavy && x.chance(0.12) {
		// one of very few short texts under one of three meanings: the same text under different
		// meanings in different files of the bundle
		return &Node{K: "msg", S: "a short label", M: []string{"", "noun", "verb"}[x.pick(3)], Body: []*Node{{K: "text", S: []string{"Save", "Open"}[x.pick(2)]}}}
	}
	n := &Node{K: "msg", S: []string{"", "a description", "other desc", "verb|noun", "50% off: a=b \"q\""}[x.pick(5)]}
	if x.chance(0.25) {
		n.M = []string{"noun", "verb"}[x.pick(2)]
	}
	if x.chance(0.3) {
		pl := &Node{K: "plural", E: x.expr(tSmall, 0)}
		if strings.ContainsAny(pl.E, " ") || !strings.HasPrefix(pl.E, "$") {
			// plural on a literal is legal but dull; prefer a variable if one exists
			if vs := x.vars(tSmall); len(vs) > 0 {
				pl.E = x.use(vs[0])
			}
		}
		// {case 1}{default} is the shape a PO catalogue can represent
		switch x.pick(5) {
		case 0, 1:
			pl.Conds = append(pl.Conds, &Cond{E: "1", Body: x.msgBody(1 + x.pick(3))})
		case 2:
			pl.Conds = append(pl.Conds, &Cond{E: "0", Body: x.msgBody(1 + x.pick(2))})
		default:
			pl.Conds = append(pl.Conds, &Cond{E: "0", Body: x.msgBody(1 + x.pick(2))}, &Cond{E: "1", Body: x.msgBody(1 + x.pick(3))})
		}
		pl.Else = x.msgBody(1 + x.pick(3))
		n.Body = []*Node{pl}
		return n
	}
	parts := 1 + x.pick(5)
	if x.o.MsgHeavy && x.chance(0.15) {
		parts = 10 + x.pick(5) // a long message: more placeholders than any small-case shortcut covers
	}
	n.Body = x.msgBody(parts)
	return n
}

func (x *g) hasVar(name string) bool {
	for _, v := range x.scope {
		if v.ref == "$"+name && !v.loop {
			return true
		}
	}
	return false
}

func (x *g) isParam(name string) bool {
	for _, p := range x.cur.params {
		if p.Name == name {
			return true
		}
	}
	return false
}

func (x *g) callName(s tsig) string {
	if s.file == x.cur.file || s.ns == x.cur.ns {
		return "." + s.name
	}
	if al, ok := x.aliases[x.cur.file]; ok {
		for last, ns := range al {
			if ns == s.ns {
				return last + "." + s.name
			}
		}
	}
	return s.ns + "." + s.name
}

func (x *g) call(depth int) *Node {
	if len(x.sigs) == 0 {
		return nil
	}
	s := x.sigs[x.pick(len(x.sigs))]
	if x.cost+x.mult*s.cost > costLimit {
		return nil
	}
	x.cost += x.mult * s.cost
	n := &Node{K: "call", Tmpl: x.callName(s)}
	need := map[string]bool{}
	for _, p := range s.params {
		if !p.Optional {
			need[p.Name] = true
		}
	}
	switch x.pick(4) {
	case 0: // data="all": the caller's params that the callee declares are passed along
		n.Data = "all"
		for _, p := range s.params {
			if x.isParam(p.Name) {
				delete(need, p.Name)
				x.used[p.Name] = true
			}
		}
	case 1: // data="$m"
		if x.hasVar("m") {
			ok := true
			for name := range need {
				found := false
				for _, f := range mapFields {
					if f.name == name {
						found = true
					}
				}
				if !found {
					ok = false
				}
			}
			if ok {
				n.Data = "$m"
				if x.chance(0.5) {
					// a data expression that is not a plain reference; params are bound on top of it
					n.Data = []string{"augmentMap($m, [:])", "augmentMap([:], $m)", "augmentMap($m, ['b': 'over'])"}[x.pick(3)]
				}
				x.used["m"] = true
				need = map[string]bool{}
			}
		}
	}
	dataExpr := strings.HasPrefix(n.Data, "augmentMap")
	for _, p := range s.params {
		if !need[p.Name] && !(p.Optional && x.chance(0.3)) && !(dataExpr && x.chance(0.5)) {
			continue
		}
		if need[p.Name] && x.o.DropRequired > 0 && x.chance(x.o.DropRequired) {
			continue // one or several required params are omitted: the compile error lists them and prints the call
		}
		if n.Data == "$m" {
			continue
		}
		t, _ := poolType(p.Name)
		a := &Arg{Key: p.Name}
		if (t == tStr || t == tHtml || t == tOptStr) && x.chance(0.3) && depth < x.o.MaxDepth {
			a.Body = x.block(depth+1, 2, false)
		} else {
			a.E = x.expr(t, 1)
		}
		n.Args = append(n.Args, a)
	}
	return n
}

func (x *g) template(file int, ns, name string) *Template {
	t := &Template{Name: name}
	// params
	np := x.pick(5)
	perm := make([]int, len(pool))
	for i := range perm {
		perm[i] = i
	}
	for i := len(perm) - 1; i > 0; i-- {
		j := x.pick(i + 1)
		perm[i], perm[j] = perm[j], perm[i]
	}
	x.scope = nil
	x.loops = nil
	x.mult, x.cost = 1, 1
	x.used = map[string]bool{}
	chosen := perm[:np]
	if need := focusNeeds[x.o.Focus]; need != "" {
		// the focus construct needs this param
		have := false
		for _, pi := range chosen {
			have = have || pool[pi].name == need
		}
		if !have {
			for pi := range pool {
				if pool[pi].name == need {
					chosen = append(append([]int{}, chosen...), pi)
				}
			}
		}
	}
	for _, pi := range chosen {
		p := pool[pi]
		t.Params = append(t.Params, Param{Name: p.name, Optional: p.t == tOptStr})
		x.scope = append(x.scope, svar{ref: "$" + p.name, t: p.t, root: p.name})
		if p.t == tMap {
			for _, f := range mapFields {
				x.scope = append(x.scope, svar{ref: "$" + p.name + "." + f.name, t: f.t, root: p.name})
			}
		}
	}
	x.cur = tsig{file: file, ns: ns, name: name, params: t.Params}
	switch x.pick(6) {
	case 0:
		t.Header = len(t.Params) > 0
	case 1:
		t.NoDoc = len(t.Params) == 0
	}
	switch x.pick(8) {
	case 0:
		t.Autoescape = "false"
	case 1:
		t.Autoescape = "true"
	case 2:
		t.Autoescape = "contextual"
	}
	t.Private = x.chance(0.1)
	t.Body = x.block(0, x.o.MaxNodes, false)
	if x.o.Focus != "" && x.chance(0.7) {
		if fn := x.focusNode(); fn != nil {
			at := x.pick(len(t.Body) + 1)
			t.Body = append(t.Body[:at:at], append([]*Node{fn}, t.Body[at:]...)...)
		}
	}
	// every declared param must be used
	for _, p := range t.Params {
		if x.used[p.Name] {
			continue
		}
		pt, _ := poolType(p.Name)
		switch pt {
		case tListInt, tListStr, tListMap:
			t.Body = append(t.Body, &Node{K: "print", E: "length($" + p.Name + ")"})
		case tMap:
			t.Body = append(t.Body, &Node{K: "print", E: "$" + p.Name + ".b"})
		case tOptStr:
			t.Body = append(t.Body, &Node{K: "print", E: "$" + p.Name + " ?: 'none'"})
		default:
			t.Body = append(t.Body, &Node{K: "print", E: "$" + p.Name})
		}
	}
	return t
}

// Features lists the constructs Opts.Focus can name.
var Features = []string{"augment-into-map", "augment-empty", "augment-onto-empty", "data-expr-call", "msg-only-let", "msg-only-param", "push-onto-range", "push-onto-data", "map-literal-print",
	"css-expr", "literal", "default-first-switch", "plural-msg", "ifempty", "ij", "global", "nested-let-call", "deep-nesting", "long-value", "deep-calls", "phname-tag", "mutual-data-all", "text-only-callee", "directive-list-arg", "mode-func"}

// FocusFor draws the focus of a case from its seed: none for two cases in five, otherwise one of
// the Features.
func FocusFor(seed uint64) string {
	r := simrt.NewRNG(seed ^ 0xf0c05)
	if r.Intn(5) < 2 {
		return ""
	}
	return Features[r.Intn(len(Features))]
}

// focusNeeds names the pool param a focus construct refers to.
var focusNeeds = map[string]string{"augment-into-map": "m", "augment-empty": "m", "augment-onto-empty": "m", "data-expr-call": "m", "push-onto-data": "xs", "ifempty": "xs", "plural-msg": "n"}

// focusNode builds the construct named by Opts.Focus in the current template, or nil.
func (x *g) focusNode() *Node {
	use := func(name string) string { x.used[name] = true; return "$" + name }
	switch x.o.Focus {
	case "augment-into-map":
		return &Node{K: "print", E: "augmentMap([" + []string{"'z'", "'extra'", "'b'"}[x.pick(3)] + ": " + x.strLit() + "], " + use("m") + ")"}
	case "augment-empty":
		return &Node{K: "print", E: "augmentMap(" + use("m") + ", [:])"}
	case "augment-onto-empty":
		return &Node{K: "print", E: "augmentMap([:], " + use("m") + ")"}
	case "data-expr-call":
		// a callee all of whose required params are fields of the pool map
		for _, s := range x.sigs {
			ok := x.cost+x.mult*s.cost <= costLimit
			for _, p := range s.params {
				found := p.Optional
				for _, f := range mapFields {
					found = found || f.name == p.Name
				}
				ok = ok && found
			}
			if !ok {
				continue
			}
			x.cost += x.mult * s.cost
			n := &Node{K: "call", Tmpl: x.callName(s), Data: []string{"augmentMap(" + use("m") + ", [:])", "augmentMap([:], " + use("m") + ")", "augmentMap(" + use("m") + ", ['b': 'over'])"}[x.pick(3)]}
			for _, p := range s.params {
				if t, ok := poolType(p.Name); ok && x.chance(0.6) {
					n.Args = append(n.Args, &Arg{Key: p.Name, E: x.expr(t, 1)})
				}
			}
			return n
		}
	case "msg-only-let":
		if x.o.Msgs {
			name := x.fresh("l")
			x.used[name] = true
			return &Node{K: "if", E: "true", Body: []*Node{
				{K: "letc", Var: name, Body: []*Node{{K: "text", S: x.text()}, {K: "msg", S: "in a block", Body: []*Node{{K: "text", S: words[x.pick(len(words))] + " " + words[x.pick(len(words))]}}}}},
				{K: "print", E: "$" + name}}}
		}
	case "msg-only-param":
		if x.o.Msgs {
			for _, s := range x.sigs {
				if x.cost+x.mult*s.cost > costLimit {
					continue
				}
				hasStr := false
				for _, p := range s.params {
					t, _ := poolType(p.Name)
					hasStr = hasStr || t == tStr || t == tHtml || t == tOptStr
				}
				if !hasStr {
					continue // (before any expression is drawn: a discarded expression would leave its variables marked as used)
				}
				n := &Node{K: "call", Tmpl: x.callName(s)}
				ok, done := true, false
				for _, p := range s.params {
					t, _ := poolType(p.Name)
					switch {
					case !done && (t == tStr || t == tHtml || t == tOptStr):
						n.Args = append(n.Args, &Arg{Key: p.Name, Body: []*Node{{K: "msg", S: "in a param", Body: []*Node{{K: "text", S: words[x.pick(len(words))]}}}}})
						done = true
					case !p.Optional:
						n.Args = append(n.Args, &Arg{Key: p.Name, E: x.expr(t, 1)})
					}
				}
				if ok && done {
					x.cost += x.mult * s.cost
					return n
				}
			}
		}
	case "push-onto-range":
		if len(x.o.ListFuncs) > 0 {
			name := x.fresh("i")
			return &Node{K: "foreach", Var: name, E: x.o.ListFuncs[0] + "(range(" + fmt.Sprint(1+x.pick(3)) + "), " + fmt.Sprint(x.pick(9)) + ")", Body: []*Node{{K: "print", E: "$" + name}}}
		}
	case "push-onto-data":
		if len(x.o.ListFuncs) > 0 {
			name := x.fresh("i")
			return &Node{K: "foreach", Var: name, E: x.o.ListFuncs[0] + "(" + use("xs") + ", " + fmt.Sprint(x.pick(9)) + ")", Body: []*Node{{K: "print", E: "$" + name}}}
		}
	case "map-literal-print":
		return &Node{K: "print", E: x.mapLit(1)}
	case "css-expr":
		return &Node{K: "css", E: x.expr(tStr, 1), S: "suffix"}
	case "literal":
		return &Node{K: "literal", S: []string{"{x} <b>", "}}{{", "lit & <i>", "{/lit}"}[x.pick(4)]}
	case "default-first-switch":
		return &Node{K: "switch", E: x.expr(tSmall, 1), S: "default-first", Conds: []*Cond{{E: "0", Body: []*Node{{K: "text", S: "zero"}}}, {E: "1, 2", Body: []*Node{{K: "text", S: "few"}}}}, Else: []*Node{{K: "text", S: "other"}}}
	case "plural-msg":
		if x.o.Msgs {
			return &Node{K: "msg", S: "a plural", Body: []*Node{{K: "plural", E: use("n"), Conds: []*Cond{{E: "1", Body: []*Node{{K: "text", S: "one thing"}}}}, Else: []*Node{{K: "print", E: "$n"}, {K: "text", S: " things"}}}}}
		}
	case "ifempty":
		name := x.fresh("i")
		return &Node{K: "foreach", Var: name, E: use("xs"), Body: []*Node{{K: "print", E: "$" + name}}, Else: []*Node{{K: "text", S: "none"}}}
	case "ij":
		if x.o.IJ {
			x.usesIJ = true
			return &Node{K: "print", E: "$ij.user"}
		}
	case "global":
		if x.o.Globals {
			return &Node{K: "print", E: x.global(tStr)}
		}
	case "deep-nesting":
		// twenty blocks deep: whatever is sized for "ordinary" nesting is outgrown
		n := &Node{K: "print", E: x.strLit()}
		for i := 0; i < 20; i++ {
			switch i % 4 {
			case 0:
				n = &Node{K: "if", E: "true", Body: []*Node{n}}
			case 1:
				n = &Node{K: "switch", E: "1", Conds: []*Cond{{E: "1", Body: []*Node{n}}}}
			case 2:
				name := x.fresh("r")
				n = &Node{K: "for", Var: name, E: "range(1)", Body: []*Node{n}}
			default:
				n = &Node{K: "if", E: "false", Body: []*Node{{K: "text", S: "x"}}, Else: []*Node{n}}
			}
		}
		return n
	case "deep-calls":
		// the self-recursive template called forty levels deep
		for _, s := range x.sigs {
			if len(s.params) == 1 && s.params[0].Name == "n" && s.cost == 30 {
				return &Node{K: "call", Tmpl: x.callName(s), Args: []*Arg{{Key: "n", E: fmt.Sprint(30 + x.pick(15))}}}
			}
		}
	case "phname-tag":
		if x.o.Msgs {
			return &Node{K: "msg", S: "tags with names", Body: []*Node{{K: "text", S: "click "}, {K: "text", S: "<a href=\"u\" phname=\"the_link\">"}, {K: "text", S: "here"}, {K: "text", S: "</a>"}, {K: "text", S: " <b phname=\"bold\">now</b>"}}}
		}
	case "text-only-callee":
		// a callee whose body is nothing but raw text, called on its own line
		for _, s := range x.sigs {
			if s.textOnly {
				return &Node{K: "call", Tmpl: x.callName(s)}
			}
		}
	case "directive-list-arg":
		for _, d := range x.o.Directives {
			if d == "|vwrap" {
				vs := append(x.vars(tStr), x.vars(tInt)...)
				if len(vs) > 0 {
					return &Node{K: "print", E: x.strLit(), Dirs: []string{"|vwrap:[" + x.use(vs[x.pick(len(vs))]) + ", '-']"}}
				}
			}
		}
	case "mode-func":
		if x.o.ModeFunc {
			return &Node{K: "print", E: "vmode()"}
		}
	case "long-value":
		// an escaped value longer than the small buffers code tends to have (64, 256, 4096 bytes), with
		// special characters at both ends and in the middle
		unit := []string{"0123456789abcdef", "<b>&\"quoted\"</b> ", "long word "}[x.pick(3)]
		return &Node{K: "print", E: Quote("<" + strings.Repeat(unit, []int{5, 17, 300}[x.pick(3)]) + "&>")}
	case "nested-let-call":
		for _, s := range x.sigs {
			if x.cost+x.mult*s.cost > costLimit {
				continue
			}
			ok := true
			n := &Node{K: "call", Tmpl: x.callName(s)}
			for _, p := range s.params {
				if !p.Optional {
					t, _ := poolType(p.Name)
					n.Args = append(n.Args, &Arg{Key: p.Name, E: x.expr(t, 1)})
				}
			}
			if ok {
				x.cost += x.mult * s.cost
				name := x.fresh("l")
				x.used[name] = true
				return &Node{K: "if", E: "true", Body: []*Node{{K: "letc", Var: name, Body: []*Node{n}}, {K: "print", E: "$" + name}, {K: "print", E: "$" + name}}}
			}
		}
	}
	return nil
}

// recursive returns a template that calls itself on a decreasing argument; whatever value the
// argument has (a float, an infinity passed in by a chaos mutation), the depth stays below 50.
func (x *g) recursive(name string) *Template {
	return &Template{Name: name, Params: []Param{{Name: "n"}}, Body: []*Node{
		{K: "print", E: "$n"},
		{K: "if", E: "$n > 0 and $n < 50", Body: []*Node{{K: "text", S: ","}, {K: "call", Tmpl: "." + name, Args: []*Arg{{Key: "n", E: "$n - 1"}}}}},
	}}
}

// Generate builds one case from a seed.
func Generate(seed uint64, o Opts) *Case {
	x := &g{r: simrt.NewRNG(seed), o: o, c: &Case{}, aliases: map[int]map[string]string{}}
	nf := 1 + x.pick(o.MaxFiles)
	type slot struct {
		file int
		name string
	}
	files := make([]*File, nf)
	var slots []slot
	tn := 0
	taken := map[string]bool{}
	for i := 0; i < nf; i++ {
		f := &File{Name: fmt.Sprintf("f%d.soy", i), Namespace: fmt.Sprintf("app.f%d", i)}
		switch x.pick(6) {
		case 0:
			f.Autoescape = "false"
		case 1:
			f.Autoescape = "true"
		case 2:
			f.Autoescape = "contextual"
		}
		// now and then two files share a namespace but not its autoescape attribute
		if i > 0 && x.chance(0.2) {
			j := x.pick(i)
			f.Namespace = files[j].Namespace
			for f.Autoescape == files[j].Autoescape {
				f.Autoescape = []string{"", "false", "true", "contextual"}[x.pick(4)]
			}
		}
		if o.SameFileNames && i > 0 && x.chance(0.15) {
			f.Name = files[x.pick(i)].Name
		}
		if o.UnnamedFiles && x.chance(0.2) {
			f.Name = ""
		}
		files[i] = f
		for j, n := 0, 1+x.pick(o.MaxTemplates); j < n; j++ {
			name := fmt.Sprintf("t%d", tn)
			// now and then a short name that other namespaces use too
			if short := fmt.Sprintf("s%d", j); x.chance(0.3) && !taken[f.Namespace+"."+short] {
				name = short
			}
			if o.CaseTwins && x.chance(0.15) {
				// a name that differs from an earlier one of this namespace in the case of its first letter only
				for _, sl := range slots {
					if files[sl.file].Namespace == f.Namespace {
						if tw := strings.ToUpper(sl.name[:1]) + sl.name[1:]; tw != sl.name && !taken[f.Namespace+"."+tw] {
							name = tw
							break
						}
					}
				}
			}
			taken[f.Namespace+"."+name] = true
			slots = append(slots, slot{i, name})
			tn++
		}
	}
	// aliases to later files
	for i := 0; i < nf; i++ {
		for j := i + 1; j < nf; j++ {
			if x.chance(0.4) && files[j].Namespace != files[i].Namespace {
				if x.aliases[i] == nil {
					x.aliases[i] = map[string]string{}
				}
				ns := files[j].Namespace
				last := ns[strings.LastIndex(ns, ".")+1:]
				if _, dup := x.aliases[i][last]; !dup {
					x.aliases[i][last] = ns
					files[i].Aliases = append(files[i].Aliases, ns)
				}
			}
		}
	}
	// generate from the last template to the first: a template may call any later one
	tmpls := make([]*Template, len(slots))
	for k := len(slots) - 1; k >= 0; k-- {
		s := slots[k]
		var t *Template
		textOnly := false
		if x.o.Focus == "text-only-callee" && k == len(slots)-1 || x.chance(0.04) {
			t = &Template{Name: s.name, Body: []*Node{{K: "text", S: x.text() + " static " + x.text()}}}
			textOnly = true
			x.cost = 1
		} else if x.chance(0.06) || (x.o.Focus == "deep-calls" && k == len(slots)-1) {
			t = x.recursive(s.name)
		} else {
			t = x.template(s.file, files[s.file].Namespace, s.name)
		}
		tmpls[k] = t
		cost := x.cost
		if len(t.Params) == 1 && t.Params[0].Name == "n" && len(t.Body) == 2 && t.Body[1].K == "if" {
			cost = 30 // the self-recursive template
		}
		x.sigs = append(x.sigs, tsig{file: s.file, ns: files[s.file].Namespace, name: s.name, params: t.Params, cost: cost, textOnly: textOnly})
	}
	for k, s := range slots {
		files[s.file].Templates = append(files[s.file].Templates, tmpls[k])
	}
	if o.Focus == "mutual-data-all" && len(files) > 0 {
		// two templates that forward their params to each other with data="all" (never executed: the
		// calls sit under {if false}), a third that really uses the param, an outside caller
		f0, fl := files[0], files[len(files)-1]
		full := func(f *File, n string) string {
			if f == f0 {
				return "." + n
			}
			return f.Namespace + "." + n
		}
		fwd := func(calls ...string) []*Node {
			var body []*Node
			for _, c := range calls {
				body = append(body, &Node{K: "call", Tmpl: c, Data: "all"})
			}
			return []*Node{{K: "text", S: "m"}, {K: "if", E: "false", Body: body}}
		}
		f0.Templates = append(f0.Templates,
			&Template{Name: "mua", Params: []Param{{Name: "b"}}, Body: fwd(".mub")},
			&Template{Name: "mub", Params: []Param{{Name: "b"}}, Body: fwd(".mua", full(fl, "muc"))},
			&Template{Name: "mud", Params: []Param{{Name: "b"}}, Body: []*Node{{K: "call", Tmpl: ".mua", Data: "all"}}})
		fl.Templates = append(fl.Templates, &Template{Name: "muc", Params: []Param{{Name: "b"}}, Body: []*Node{{K: "print", E: "$b"}}})
	}
	x.c.Files = files
	// data sets
	for i := 0; i < 3; i++ {
		x.c.Data = append(x.c.Data, x.dataSet(i))
	}
	x.c.IJ = []DVal{
		{T: "map", M: []KV{{"user", DVal{T: "str", S: "ann<a>"}}, {"n", DVal{T: "int", I: 2}}}},
		{T: "map", M: []KV{{"user", DVal{T: "str", S: ""}}, {"n", DVal{T: "int", I: 0}}}},
	}
	for k, s := range slots {
		_ = k
		for d := 0; d < 3; d++ {
			if d == 0 || x.chance(0.5) {
				x.c.Entries = append(x.c.Entries, Entry{Template: files[s.file].Namespace + "." + s.name, Data: d, IJ: x.pick(2)})
			}
		}
	}
	return x.c
}

func (x *g) dataSet(kind int) DVal {
	ints := func(n int) []DVal {
		var l []DVal
		for i := 0; i < n; i++ {
			l = append(l, DVal{T: "int", I: int64(x.pick(20))})
		}
		return l
	}
	str := func() DVal {
		s := words[x.pick(len(words))]
		if kind != 0 || x.chance(0.3) {
			s += specials[x.pick(len(specials))]
		}
		return DVal{T: "str", S: s}
	}
	mp := func() DVal {
		return DVal{T: "map", M: []KV{
			{"a", DVal{T: "int", I: int64(x.pick(50))}},
			{"n", DVal{T: "int", I: int64(x.pick(3))}},
			{"b", str()},
			{"c", DVal{T: "bool", B: x.chance(0.5)}},
			{"xs", DVal{T: "list", L: ints(1 + x.pick(3))}},
		}}
	}
	nList := 1 + x.pick(3)
	if kind == 1 {
		nList = 0
	}
	var ss, ms []DVal
	for i := 0; i < nList; i++ {
		ss = append(ss, str())
		ms = append(ms, mp())
	}
	m := []KV{
		{"a", DVal{T: "int", I: int64(x.pick(100))}},
		{"n", DVal{T: "int", I: int64([]int{2, 0, 1 + x.pick(5)}[kind])}},
		{"b", str()},
		{"h", DVal{T: "str", S: "<b>" + specials[x.pick(len(specials))] + "</b> & more"}},
		{"c", DVal{T: "bool", B: kind != 1}},
		{"f", DVal{T: "float", F: []float64{1.5, 0, 2.25}[kind]}},
		{"xs", DVal{T: "list", L: ints(nList)}},
		{"ss", DVal{T: "list", L: ss}},
		{"m", mp()},
		{"ms", DVal{T: "list", L: ms}},
	}
	if kind != 1 {
		m = append(m, KV{"o", str()})
	}
	return DVal{T: "map", M: m}
}
