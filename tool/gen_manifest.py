#!/usr/bin/env python3
"""Regenerates /verif/MANIFEST.json from the table below (run from anywhere)."""
import json, os

ROOT = os.path.dirname(os.path.dirname(os.path.abspath(__file__)))

NA = {
 "C01": "pure function of (expression, data): no schedule, clock, fault or history in the statement; deciding it needs a reference evaluator and input enumeration, which is not deterministic simulation",
 "C02": "pure function of (bundle, data) computed by a single-threaded tree walk; its history-flavoured consequence (a render leaves nothing behind) is decided under C08",
 "C03": "pure function of (program, autoescape configuration, value); the configurations in its quantifier are template attributes, not runtime nondeterminism",
 "C04": "translation validation of a pure compiler by executing its output in a JS engine; nothing to schedule or fault",
 "C07": "pure accept/reject function of the program text; needs an independent reference checker, not a simulator",
 "C11": "pure pipeline (extract, PO text, parse, render); its only schedule-dependent ingredient, extractor and renderer assigning the same ids and placeholder names in different processes, is decided under C10/C13",
 "C14": "pure function of the program; needs a JavaScript parser as oracle, not a simulator",
 "C15": "pure string function (raw-text normalisation and comment recognition)",
 "C16": "pure string functions with decoders as oracles",
 "C17": "pure function of the expression tree (print then parse)",
 "C19": "pure function of the input; the fault in its quantifier is a syntax error placed in the input text, i.e. input generation",
 "C20": "pure functions of values (conversion, equality, truthiness); no schedule, fault or history",
}

# id -> (level, technique, text, note, design_ref)
CLAIMED = {
 "C05": ("exploration",
   "two-task deterministic simulation (scanner goroutine + parser) under a step clock; deadlock and non-termination decided by the scheduler; exhaustive EOF-point enumeration over the corpus plus seeded input mutation",
   "Every parse runs as the main task of a simulation in which the scanner goroutine is a second task and the token channel is modelled for enabledness, so 'returns', 'blocks for ever' and 'spins for ever' are exact, replayable verdicts in simulated steps instead of a test timeout. The end of input is injected at every byte offset of every corpus item (exhaustive), then seeded token-level mutants, tag-dictionary sequences, pumped and random inputs. Besides the absolute bound of StepsPerByte*(n+64) simulated steps, a scale-free linearity oracle parses the same pumped input at n and 4n bytes and bounds the growth of simulated time by a factor 7 (standard-library scans are charged per byte). Sampling beyond the exhaustive prefix part: a clean run is evidence, not proof.",
   "Trusts: the instrumenter's rewrites preserve soy's semantics (the instrumented copy passes soy's own test suite; same-seed runs are compared in the determinism self-test); simulated time counts soy statements, not CPU inside the standard library; the linear-time constant StepsPerByte is a harness constant >20x the measured worst case.",
   "DESIGN.md section 4 C05"),
 "C18": ("exploration",
   "deterministic simulation of call histories: after each parse call returns, the scheduler runs the remaining tasks to quiescence and its task table names every scanner task that is alive and disabled for ever",
   "Sequences of up to 200 parse calls (file, expression, globals, compile) execute inside one simulated process. The simulator owns the task table and the channel model, so 'the scanner has exited when the call returns' is decided exactly at quiescence - no goroutine-count polling, no sleeps. Both schedules that matter (scanner blocked in a send when the parser gives up; scanner not yet there) are forced. Exhaustive over every prefix of the corpus, seeded beyond. A second phase runs a sample of the same sequences on the un-instrumented build and searches the real runtime's goroutine dump for scanner frames once it has settled.",
   "Trusts the channel enabledness model of verif/simrt (differentially tested against native channels) and that soy blocks only on channels (mutexes, WaitGroup, Cond, select, timers and tickers are modelled too; what is not - context deadlines, signal.Notify - makes the check exit 2). A goroutine still asleep or polling one simulated hour after the call returned counts as left behind.",
   "DESIGN.md section 4 C18"),
 "C06": ("fault_enumeration",
   "fault-point enumeration under the simulator's step clock: for every run, a panic (four value kinds) at every invocation of a user function/directive, a writer error at every write, every catalogue misbehaviour at every lookup, reader faults at every byte offset; unbounded loops decided by step budget",
   "The dangerous code is the error path (recover wrappers, position lookup while building the error), which only runs when something fails and must hold wherever the failure lands. Each generated render (valid and chaos-mode bundles, arbitrary data shapes) is first run fault-free to record its fault points, then re-run once per fault point; EvalExpr and ParseGlobals get the same treatment through fault-injecting readers. Everything runs on the instrumented build under a step clock, so 'no loop runs unboundedly' is a deterministic verdict (range with a non-positive step is caught in milliseconds). Fault points exhaustive per case; cases seeded.",
   "Trusts the generator's chaos mutations to reach the ill-typed operand that provokes a given panic (found with the probability of generating it) and the step budget constant (60x the measured need).",
   "DESIGN.md section 4 C06"),
 "C08": ("exploration",
   "operation histories over one long-lived compiled bundle checked step by step against a fresh-compile reference model, plus structural digests of every shared object after every operation (fault operations included)",
   "One compiled bundle, one set of data/$ij maps and catalogues live through a seeded history of renders, faulted renders (failing writer at write k, user function panicking at invocation n, ill-typed data), JS generation, re-compilation and reused Renderer values, with 0-2 obligatory directives configured. After every operation outputs must equal a model computed on a freshly compiled bundle and a reflection digest of data, $ij, catalogue, registry (every AST node), soy.Bundle and global registries must be unchanged. Histories run on the plain and on the instrumented build. Seeded sampling of histories and bundles.",
   "Trusts the reflection digest to see every field that matters (it walks exported and unexported fields, slices up to len, maps order-independently; it does not look into spare slice capacity) and the generator to reach the features that carry state (it is valid by construction: a compile failure is a discard and is counted).",
   "DESIGN.md section 4 C08"),
 "C09": ("exploration",
   "seeded one-task-at-a-time scheduler over real goroutines with handoffs hidden from ThreadSanitizer (race-freedom), plus interleaving search (random/PCT/coarse/round-robin) against a run-alone output oracle",
   "Client tasks share one compiled bundle, data maps, Go struct values, *Renderer objects and a message bundle (a stateless stub or the repository's own PO-file bundle) and render, generate JS, compile and parse under a schedule drawn from the run's PRNG; yields sit before every statement of soy. The baton is handed over with channel operations the race detector is told to ignore, so the execution is serial and exactly replayable yet any pair of conflicting accesses soy does not order itself is reported - independent of the interleaving chosen - while the interleaving search feeds the second oracle (bytes equal the operation run alone). Sampling over bundles, operation mixes and schedules; a determinism slice re-executes units in fresh processes inside every run.",
   "Trusts ThreadSanitizer and the Go memory model annotation of channels, go statements and sync; trusts that runtime.RaceDisable hides exactly the simulator's handoffs (self-tested: an unsynchronised shared append is reported in every execution, a mutex-protected one never). Channels, select, Mutex/RWMutex, Once, WaitGroup, Cond, sync.Pool, sync.Map.Range, and the clock (time.Now/Sleep/After, timers, tickers; machine speed is a per-run knob) are modelled, none of them adding happens-before edges the real primitive lacks (self-tested); context deadlines, signal.Notify and reflect MapRange are not, and a tree that uses one makes the check exit 2. A race report is re-executed in up to three fresh processes.",
   "DESIGN.md section 3.3 and 4 C09"),
 "C10": ("exploration",
   "map-iteration-order seam: every range-over-map site of the placeholder naming pass is perturbed one at a time and all together with seeded, replayable order decisions; plus compile histories, context variants, sensitivity variants and a native cross-process comparison",
   "Decides the stability, independence and sensitivity clauses: ids, placeholder names and placeholder strings must not depend on Go's map iteration order (decided through the seam, which reaches every rotation on demand instead of waiting for the runtime to pick it), on what was compiled before, on the process (a fresh child process compiles the unit's messages in reverse order and must agree), on surrounding messages, file, namespace, template or description - and must change with text (also in the last byte at every length modulo 12), meaning, placeholders and plural structure. Conformance of the numbers to Google's fingerprint is NOT decided (pure function with an external reference).",
   "Trusts that map iteration order is the only schedule-like input of the naming pass (the native cross-process comparison exists to catch another) and that 63-bit ids do not collide in the sensitivity clause.",
   "DESIGN.md section 3.5 and 4 C10"),
 "C13": ("exploration",
   "map-iteration-order seam over all range-over-map sites and reflect.MapKeys (seeded per-execution decisions, single-site perturbation), file-insertion-order permutations, and the unmodified build in fresh processes under native order",
   "The only thing between equal sources and equal results is Go's map iteration order and the order files were added; both are treated as a scheduler whose decisions are seeded, logged, replayable and minimisable. The observation vector (accept/reject and error text, message ids and names, rendered output, JS per file x formatter x catalogue) must be identical under every sampled order assignment and every file order (small bundles exhaustively). The native cross-check ties the seam to reality: native vectors must equal the canonical reference, and a native disagreement is reported even without a seam reproduction; a fresh child process compiles the unit's cases in reverse order and must agree as well (process-level state).",
   "Trusts the instrumenter to have rewritten every range-over-map (it reports counts and un-modelled order sources such as sync.Map.Range) and that orders produced by the seam are orders the Go runtime may produce (rotations of slot order for single-bucket maps, arbitrary for larger ones, by the language spec).",
   "DESIGN.md section 3.5 and 4 C13"),
 "C12": ("fault_enumeration",
   "write-fault enumeration: for every generated render, one faulted run per write call index (sticky, transient, partial, full-count) and per byte capacity of the fault-free run, against a recording fault-injecting io.Writer in four shapes (plain, with Flush, with a Flush that reports the failure, with WriteString), through Renderer.Execute and Tofu.Render",
   "The failure point is enumerated exhaustively per case over every write call and every byte offset of the fault-free run (sampled only beyond 600 calls / 1024 bytes, counted separately), in sticky, transient and partial modes - transient faults are what exposes an ignored error that a later checked write would otherwise mask. Oracle: failed write => non-nil error; accepted bytes are a prefix; nil => complete output. Candidates are confirmed on freshly compiled bundles so that a history dependence (C08) cannot alarm here. Cases are seeded.",
   "Trusts the fault-free run on a fresh compile as reference output and the classification of write calls (entity / escaper chunk / raw text / value) used only for the reach probes.",
   "DESIGN.md section 4 C12"),
}

def main():
    checks = []
    for pid in sorted(CLAIMED):
        level, tech, text, note, ref = CLAIMED[pid]
        checks.append({
            "property_id": pid,
            "quick_cmd": "/verif/bin/verif check %s --tier quick" % pid,
            "thorough_cmd": "/verif/bin/verif check %s --tier thorough" % pid,
            "evidence_file": "/verif/evidence/%s.json" % pid,
            "replay_cmd_template": "/verif/bin/verif replay {path}",
            "engine": "verif",
            "level_claimed": {"category": level, "text": text, "design_ref": ref},
            "level_note": note,
            "technique": tech,
        })
    na = [{"property_id": k, "reason": v} for k, v in sorted(NA.items())]
    planned = []
    for p in planned:
        if p not in CLAIMED:
            na.append({"property_id": p, "reason": "simulation check designed (DESIGN.md section 4) but not built yet in this tree; not claimed until its check exists"})
    na.sort(key=lambda x: x["property_id"])
    m = {
        "version": 1,
        "setup_cmd": "cd /verif/tool && GOFLAGS=-mod=mod GOPROXY=off GOSUMDB=off GOTOOLCHAIN=local go build -o /verif/bin/verif ./cmd/verif && cd /verif && /verif/bin/verif warm",
        "hooks": {
            "guard": "verif",
            "enable": "no hook is committed to /repo: every check copies /repo's current working tree to a scratch directory, rewrites the copy with /verif/tool/internal/instrument (yields, goroutine creation, channel operations, map iteration and mutexes routed through verif/simrt) and builds the harness against that copy; 'verif' names the import alias/guard of that generated copy only",
            "baseline_off_cmd": "cd /repo && go test -vet=off -count=1 -timeout 25m ./...",
            "source_commits": [],
            "add_only": True,
        },
        "engines": [{
            "name": "verif", "path": "/verif/bin/verif", "serves_properties": sorted(CLAIMED),
            "kind_free_text": "deterministic simulation with fault injection: seeded one-task-at-a-time scheduler over real goroutines (handoffs hidden from the race detector), channel enabledness model, step clock, map-iteration-order seam, fault-injecting writer/reader/bundle/function stubs, cross-process ddmin minimiser",
        }],
        "checks": checks,
        "not_applicable": na,
        "notes": "Exit codes: 0 held (KNOWN-FINDING lines allowed), 1 VIOLATION property=<id> replay=<path>, 2 machinery trouble (TROUBLE line). Env: VERIF_SEED, VERIF_TIER, VERIF_REPO (default /repo), VERIF_JOBS (default 16). Run from /verif.",
    }
    with open(os.path.join(ROOT, "MANIFEST.json"), "w") as f:
        json.dump(m, f, indent=1)
        f.write("\n")

if __name__ == "__main__":
    main()
