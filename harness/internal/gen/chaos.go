package gen

import (
	"fmt"

	"verif/simrt"
)

// ChaosExprs are expressions that are legal to compile but ill-typed, out of range or
// otherwise dangerous to evaluate.
var ChaosExprs = []string{
	"range(1, 5, 0)", "range(5, 1, 0 - 1)", "range(0, 3, 0 - 1)", "range(3, 0)", "range('a')", "range(1.5)", "range()", "range(1, 2, 3, 4)",
	"length(1)", "length()", "length(null)", "keys('x')", "keys(1)", "augmentMap(1, 2)", "augmentMap([:], 'x')", "round('a')", "round(1.5, 'x')", "round(1.5, 400)", "round(1.5, 1099511627776)", "round($f, 9223372036854775807)", "round(2.5, 0 - 9223372036854775807)",
	"floor(null)", "ceiling('x')", "min('a', 1)", "max([1], 2)", "randomInt(0)", "randomInt('x')", "strContains(1, 2)", "strContains('a')", "nosuchfunc(1)",
	"isFirst($a)", "isLast(1)", "index()", "index($nope)", "isNonnull()", "hasData(1)", "vfail()", "vfail(1, 2)",
	"$a.b.c", "$xs['k']", "$m[0]", "$b[1]", "$b.x", "$ij.nope.deep", "$ij", "$xs[0 - 1]", "$xs[99]", "$o.x", "$ms[0].xs[9]", "$ms[5].a", "$m['zz'].q", "$a?.b", "$c[0]",
	"1 / 0", "1 % 0", "'a' % 2", "1.5 % 2", "'a' * 2", "-'a'", "-null", "not $xs", "$a < 'b'", "null < 1", "$m == $m", "[1,2][5]", "['a': 1]['b']", "['a': 1].a.b",
	"9223372036854775807 + 1", "9223372036854775807 * 2", "0 - 9223372036854775807 - 2", "1e308 * 10", "[1, [2, [3]]]", "['a': ['b': ['c': null]]]",
	"null", "null ?: null", "$o ?: $o", "$xs + 1", "$m + 'x'", "true + false", "'x' - 1", "[] == []", "$xs ? 1 : 2", "[:] ? 'a' : 'b'",
}

// ChaosDirs are directive abuses.
var ChaosDirs = []string{
	"|truncate", "|truncate:'x'", "|truncate:1,2", "|truncate:0 - 1", "|truncate:0", "|truncate:1,true,3", "|insertWordBreaks:'a'", "|insertWordBreaks:0", "|insertWordBreaks",
	"|insertWordBreaks:0 - 5", "|nosuchdirective", "|bidiSpanWrap", "|bidiUnicodeWrap", "|json", "|escapeUri:1", "|changeNewlineToBr:2", "|id:1", "|vfail:1", "|escapeJsString|json|truncate:2",
}

func allNodes(c *Case, f func(n *Node)) {
	var walk func(ns []*Node)
	walk = func(ns []*Node) {
		for _, n := range ns {
			f(n)
			walk(n.Body)
			walk(n.Else)
			for _, cd := range n.Conds {
				walk(cd.Body)
			}
			for _, a := range n.Args {
				walk(a.Body)
			}
		}
	}
	for _, fl := range c.Files {
		for _, t := range fl.Templates {
			walk(t.Body)
		}
	}
}

// Chaos applies k typing-discipline-breaking mutations to a valid case (in place) and returns
// a description of what it did.  The result may fail to compile; that is a discard, not a defect.
func Chaos(seed uint64, c *Case, k int) []string {
	r := simrt.NewRNG(seed)
	c.Chaos = true
	var log []string
	// The self-recursive templates stay as generated: C06 restricts recursion to a data-bounded
	// depth, so a mutation that makes a template recurse for ever (a condition that is always
	// true, a counter that does not decrease) would test the template, not the library.
	protected := map[*Node]bool{}
	for _, fl := range c.Files {
		for _, t := range fl.Templates {
			rec := false
			sub := &Case{Files: []*File{{Templates: []*Template{t}}}}
			allNodes(sub, func(n *Node) {
				if n.K == "call" && n.Tmpl == "."+t.Name {
					rec = true
				}
			})
			if rec {
				allNodes(sub, func(n *Node) { protected[n] = true })
			}
		}
	}
	var nodes []*Node
	allNodes(c, func(n *Node) {
		if !protected[n] {
			nodes = append(nodes, n)
		}
	})
	var exprNodes, printNodes []*Node
	for _, n := range nodes {
		switch n.K {
		case "print":
			printNodes = append(printNodes, n)
			exprNodes = append(exprNodes, n)
		case "if", "switch", "letv", "css", "plural":
			if n.E != "" {
				exprNodes = append(exprNodes, n)
			}
		}
	}
	for i := 0; i < k; i++ {
		switch r.Intn(9) {
		case 0, 1, 2:
			if len(exprNodes) > 0 {
				n := exprNodes[r.Intn(len(exprNodes))]
				n.E = ChaosExprs[r.Intn(len(ChaosExprs))]
				log = append(log, "expr:"+n.K)
			}
		case 3:
			if len(printNodes) > 0 {
				n := printNodes[r.Intn(len(printNodes))]
				n.Dirs = append(n.Dirs, ChaosDirs[r.Intn(len(ChaosDirs))])
				log = append(log, "directive")
			}
		case 4:
			// a for loop with a non-positive step or an absurd bound
			for _, n := range nodes {
				if n.K == "for" && r.Intn(2) == 0 {
					n.E = []string{"range(0, 5, 0)", "range(5, 0, 0 - 1)", "range(0, 2, 0 - 3)", "range($a, $a + 3, $n - $n)"}[r.Intn(4)]
					log = append(log, "for-step")
					break
				}
			}
		case 5:
			// a second file defining a template name again, with a much shorter source
			f0 := c.Files[r.Intn(len(c.Files))]
			if len(f0.Templates) > 0 {
				t := f0.Templates[r.Intn(len(f0.Templates))]
				dup := &File{Name: fmt.Sprintf("dup%d.soy", len(c.Files)), Namespace: f0.Namespace,
					Templates: []*Template{{Name: t.Name, NoDoc: true, Body: []*Node{{K: "text", S: "d"}}}}}
				if r.Intn(2) == 0 {
					c.Files = append(c.Files, dup)
				} else {
					c.Files = append([]*File{dup}, c.Files...)
				}
				log = append(log, "duplicate-template")
			}
		case 6:
			// failing print deep inside a callee: put it first in a random template
			f0 := c.Files[r.Intn(len(c.Files))]
			if len(f0.Templates) > 0 {
				t := f0.Templates[r.Intn(len(f0.Templates))]
				if len(t.Body) > 0 && protected[t.Body[0]] {
					break
				}
				t.Body = append(t.Body, &Node{K: "print", E: ChaosExprs[r.Intn(len(ChaosExprs))]})
				log = append(log, "failing-print-appended")
			}
		case 7:
			// plural on a non-integer, msg inside a loop
			for _, n := range nodes {
				if n.K == "plural" {
					n.E = []string{"'x'", "1.5", "null", "$xs", "$nope"}[r.Intn(4)]
					log = append(log, "plural-nonint")
					break
				}
			}
		case 8:
			// data of arbitrary shape: handled by ChaosData
			log = append(log, "data")
			for j := range c.Data {
				c.Data[j] = ChaosData(r, c.Data[j])
			}
		}
	}
	return log
}

// ChaosData replaces values of a data set by values of arbitrary JSON shape, drops some.
func ChaosData(r *simrt.RNG, d DVal) DVal {
	out := DVal{T: "map"}
	for _, kv := range d.M {
		if kv.K == "n" {
			// the recursion depth of the self-recursive templates stays a small integer (see Chaos)
			out.M = append(out.M, kv)
			continue
		}
		switch r.Intn(8) {
		case 0:
			continue // missing param
		case 1:
			out.M = append(out.M, KV{kv.K, randomValue(r, 3)})
		case 2:
			out.M = append(out.M, KV{kv.K, DVal{T: "null"}})
		case 3:
			out.M = append(out.M, KV{kv.K, DVal{T: "undef"}})
		default:
			out.M = append(out.M, kv)
		}
	}
	return out
}

func randomValue(r *simrt.RNG, depth int) DVal {
	switch r.Intn(9) {
	case 0:
		return DVal{T: "null"}
	case 1:
		return DVal{T: "bool", B: r.Intn(2) == 0}
	case 2:
		// small magnitudes only: generated templates use ints as loop bounds and recursion depths, and
		// a data-bounded loop of 2^53 iterations is slow, not a violation of C06
		return DVal{T: "int", I: []int64{0, -1, 1, 53, -62, 100}[r.Intn(6)]}
	case 3:
		return DVal{T: "float", F: []float64{0, -0.5, 1e300, 1e-300}[r.Intn(4)]}
	case 4:
		return DVal{T: "str", S: []string{"", "<>&\"'", "\u00ff\u00fe", "日本", "a\nb"}[r.Intn(5)]}
	case 5, 6:
		if depth > 0 {
			n := r.Intn(4)
			l := DVal{T: "list"}
			for i := 0; i < n; i++ {
				l.L = append(l.L, randomValue(r, depth-1))
			}
			return l
		}
	case 7:
		if depth > 0 {
			m := DVal{T: "map"}
			for i, n := 0, r.Intn(4); i < n; i++ {
				m.M = append(m.M, KV{[]string{"a", "b", "xs", "zz", ""}[r.Intn(5)], randomValue(r, depth-1)})
			}
			return m
		}
	}
	return DVal{T: "undef"}
}

// Exprs returns every expression string of the case.
func (c *Case) Exprs() []string {
	seen := map[string]bool{}
	var out []string
	add := func(e string) {
		if e != "" && !seen[e] {
			seen[e] = true
			out = append(out, e)
		}
	}
	allNodes(c, func(n *Node) {
		add(n.E)
		for _, cd := range n.Conds {
			add(cd.E)
		}
		for _, a := range n.Args {
			add(a.E)
		}
	})
	return out
}
