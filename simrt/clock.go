package simrt

import (
	"time"
	"unsafe"
)

// The clock seam.  Instrumented code never reads the machine's clock or arms a runtime timer
// inside a simulation: time.Now/Since/Until/Sleep/After/NewTimer/AfterFunc and the Stop/Reset
// methods of *time.Timer are rewritten to the functions below.  Simulated time is a function of
// the step counter -- Config.NsPerStep nanoseconds per step, a per-run knob that stands for a
// fast or a slow (stalled) machine -- plus the jumps the scheduler makes when no task can run
// and a sleeper or timer is pending (discrete-event time: a minute-long timeout costs nothing).
// Sleepers and timers are ordinary disabled tasks with a wake-up time, so every firing is a
// scheduling decision of the seeded chooser like any other and replays exactly.

// simEpoch is the wall-clock reading at step 0 of every run.
const simEpoch = int64(1_600_000_000) * int64(time.Second)

const defaultNsPerStep = 1000

//go:norace
func (s *Sim) nowNs() int64 { return s.steps*s.nsPerStep + s.clockJump }

// SimNanos returns the simulated time in nanoseconds since the start of the run (0 outside one).
//
//go:norace
func SimNanos() int64 {
	if s := cur; s != nil {
		return s.nowNs()
	}
	return 0
}

// Now replaces time.Now().
func Now() time.Time {
	s := getCur()
	if s == nil {
		return time.Now()
	}
	return time.Unix(0, simEpoch+clockRead(s)).UTC()
}

//go:norace
func clockRead(s *Sim) int64 {
	s.clockReads++
	return s.nowNs()
}

// Since replaces time.Since(t).
func Since(t time.Time) time.Duration {
	if getCur() == nil {
		return time.Since(t)
	}
	return Now().Sub(t)
}

// Until replaces time.Until(t).
func Until(t time.Time) time.Duration {
	if getCur() == nil {
		return time.Until(t)
	}
	return t.Sub(Now())
}

// Sleep replaces time.Sleep(d): the task is disabled until the simulated clock has advanced by d.
func Sleep(d time.Duration) {
	s := getCur()
	if s == nil {
		time.Sleep(d)
		return
	}
	sleepUntil(s, sleepDeadline(s, int64(d)))
}

//go:norace
func sleepDeadline(s *Sim, d int64) int64 {
	if d < 0 {
		d = 0
	}
	return s.nowNs() + d
}

//go:norace
func sleepUntil(s *Sim, until int64) {
	if s.aborted {
		abortTask(s)
	}
	s.steps++
	s.call(request{kind: reqSleep, t: s.current, until: until})
}

// simTimer is one armed timer: a task that sleeps until at and then delivers.
type simTimer struct {
	rt        *time.Timer // the value the program holds (nil for After)
	ch        chan time.Time
	f         func()
	at        int64
	cancelled bool
	fired     bool
	task      *task
}

// timerTable maps *time.Timer values handed to the program to their armed simulated timer.
// (A slice searched linearly: see the pool model for why not a map.)
var timerTable []*simTimer

//go:norace
func timerLookup(rt *time.Timer) *simTimer {
	for i := len(timerTable) - 1; i >= 0; i-- {
		if timerTable[i].rt == rt {
			return timerTable[i]
		}
	}
	return nil
}

//go:norace
func timerRegister(tm *simTimer) {
	if tm.rt != nil {
		for i, o := range timerTable {
			if o.rt == tm.rt {
				timerTable[i] = tm
				return
			}
		}
	}
	timerTable = append(timerTable, tm)
}

//go:norace
func resetTimers() { timerTable = nil }

// arm starts the task that fires tm.
//
//go:norace
func arm(s *Sim, tm *simTimer, d time.Duration) {
	if s.aborted {
		abortTask(s)
	}
	tm.at = sleepDeadline(s, int64(d))
	timerRegister(tm)
	child := &task{resume: make(chan resumeMsg, 1), spawnSite: -2, name: "timer", timer: true}
	tm.task = child
	go taskMain(s, child, func() { timerBody(s, tm) })
	s.steps++
	s.timersArmed++
	s.call(request{kind: reqSpawn, t: s.current, child: child, site: -2})
}

func timerBody(s *Sim, tm *simTimer) {
	sleepUntil(s, tm.at)
	if !timerFire(s, tm) {
		return
	}
	if tm.f != nil {
		tm.f()
		return
	}
	// a timer channel has room for one value; a second firing into a full channel is dropped
	Select(0, true, CaseSend((chan<- time.Time)(tm.ch), time.Unix(0, simEpoch+SimNanos()).UTC()))
}

//go:norace
func timerFire(s *Sim, tm *simTimer) bool {
	if tm.cancelled {
		return false
	}
	tm.fired = true
	s.timersFired++
	if tm.f != nil && tm.task != nil {
		// from here on the task runs the program's callback: if that blocks for ever it is a task left
		// behind like any other
		tm.task.timer = false
	}
	return true
}

// After replaces time.After(d).
func After(d time.Duration) <-chan time.Time {
	s := getCur()
	if s == nil {
		return time.After(d)
	}
	tm := &simTimer{ch: make(chan time.Time, 1)}
	arm(s, tm, d)
	return tm.ch
}

// farAway is the duration the real timers behind simulated ones are armed with: they exist only
// so that the program holds a genuine *time.Timer, and never fire.
const farAway = 1000 * time.Hour

// NewTimer replaces time.NewTimer(d).
func NewTimer(d time.Duration) *time.Timer {
	s := getCur()
	if s == nil {
		return time.NewTimer(d)
	}
	rt := time.NewTimer(farAway)
	tm := &simTimer{rt: rt, ch: timerChan(rt)}
	arm(s, tm, d)
	return rt
}

// timerChan returns the sending side of rt.C (the same channel, converted).
func timerChan(rt *time.Timer) chan time.Time {
	return *(*chan time.Time)(unsafe.Pointer(&rt.C))
}

// AfterFunc replaces time.AfterFunc(d, f); f runs in the timer's own task.
func AfterFunc(d time.Duration, f func()) *time.Timer {
	s := getCur()
	if s == nil {
		return time.AfterFunc(d, f)
	}
	rt := time.AfterFunc(farAway, func() {})
	tm := &simTimer{rt: rt, f: f}
	arm(s, tm, d)
	return rt
}

// TimerStop replaces t.Stop() for a *time.Timer.
func TimerStop(rt *time.Timer) bool {
	s := getCur()
	if s == nil {
		return rt.Stop()
	}
	tm := timerLookup(rt)
	if tm == nil {
		return rt.Stop() // armed outside the simulation
	}
	return timerCancel(s, tm)
}

//go:norace
func timerCancel(s *Sim, tm *simTimer) bool {
	if s.aborted {
		abortTask(s)
	}
	active := !tm.fired && !tm.cancelled
	tm.cancelled = true
	if active {
		// its task wakes at the next scheduling point, sees the cancellation and exits
		s.steps++
		s.call(request{kind: reqWake, t: s.current, child: tm.task})
	}
	return active
}

// TimerReset replaces t.Reset(d) for a *time.Timer.
func TimerReset(rt *time.Timer, d time.Duration) bool {
	s := getCur()
	if s == nil {
		return rt.Reset(d)
	}
	old := timerLookup(rt)
	if old == nil {
		return rt.Reset(d)
	}
	active := timerCancel(s, old)
	tm := &simTimer{rt: rt, ch: old.ch, f: old.f}
	arm(s, tm, d)
	return active
}

// ---- tickers -----------------------------------------------------------------------------

// A ticker is a daemon task: sleep one period, deliver (dropping the tick if the channel is
// full, as the runtime does), repeat until stopped.  A ticker nobody listens to never moves
// the clock, and ticker tasks are never reported as left behind.
type simTicker struct {
	rt      *time.Ticker
	ch      chan time.Time
	period  int64
	stopped bool
	gen     int
}

var tickerTable []*simTicker

//go:norace
func tickerLookup(rt *time.Ticker) *simTicker {
	for i := len(tickerTable) - 1; i >= 0; i-- {
		if tickerTable[i].rt == rt {
			return tickerTable[i]
		}
	}
	return nil
}

//go:norace
func startTicker(s *Sim, tk *simTicker) {
	if s.aborted {
		abortTask(s)
	}
	tk.gen++
	gen := tk.gen
	child := &task{resume: make(chan resumeMsg, 1), spawnSite: -3, name: "ticker", timer: true, daemon: true, tickCh: chanID(tk.ch)}
	go taskMain(s, child, func() { tickerBody(s, tk, gen) })
	s.steps++
	s.timersArmed++
	s.call(request{kind: reqSpawn, t: s.current, child: child, site: -3})
}

func tickerBody(s *Sim, tk *simTicker, gen int) {
	for {
		sleepUntil(s, sleepDeadline(s, tickerPeriod(tk)))
		if !tickerLive(s, tk, gen) {
			return
		}
		Select(0, true, CaseSend((chan<- time.Time)(tk.ch), time.Unix(0, simEpoch+SimNanos()).UTC()))
	}
}

//go:norace
func tickerPeriod(tk *simTicker) int64 { return tk.period }

//go:norace
func tickerLive(s *Sim, tk *simTicker, gen int) bool {
	if tk.stopped || tk.gen != gen {
		return false
	}
	s.timersFired++
	return true
}

// NewTicker replaces time.NewTicker(d).
func NewTicker(d time.Duration) *time.Ticker {
	s := getCur()
	if s == nil {
		return time.NewTicker(d)
	}
	if d <= 0 {
		panic("non-positive interval for NewTicker")
	}
	rt := time.NewTicker(farAway)
	tk := &simTicker{rt: rt, ch: *(*chan time.Time)(unsafe.Pointer(&rt.C)), period: int64(d)}
	tickerRegister(tk)
	startTicker(s, tk)
	return rt
}

//go:norace
func tickerRegister(tk *simTicker) { tickerTable = append(tickerTable, tk) }

// Tick replaces time.Tick(d).
func Tick(d time.Duration) <-chan time.Time {
	if getCur() == nil {
		return time.Tick(d)
	}
	if d <= 0 {
		return nil
	}
	return NewTicker(d).C
}

// TickerStop replaces t.Stop() for a *time.Ticker.
func TickerStop(rt *time.Ticker) {
	if getCur() != nil {
		if tk := tickerLookup(rt); tk != nil {
			tickerSetStopped(tk)
		}
	}
	rt.Stop()
}

//go:norace
func tickerSetStopped(tk *simTicker) { tk.stopped = true }

// TickerReset replaces t.Reset(d) for a *time.Ticker.
func TickerReset(rt *time.Ticker, d time.Duration) {
	s := getCur()
	tk := tickerLookup(rt)
	if s == nil || tk == nil {
		rt.Reset(d)
		return
	}
	if d <= 0 {
		panic("non-positive interval for Ticker.Reset")
	}
	tickerRearm(tk, int64(d))
	startTicker(s, tk)
}

//go:norace
func tickerRearm(tk *simTicker, d int64) {
	tk.period = d
	tk.stopped = false
}

//go:norace
func resetTickers() { tickerTable = nil }
