// Package gen is the typed bundle generator shared by C06, C08, C09, C12, C13 and C10
// (DESIGN.md 3.6).  A case is kept as a tree (JSON) and printed to Soy source
// deterministically, so that the minimiser can delete files, templates and body nodes.
package gen

import (
	"fmt"
	"sort"
	"strings"

	"github.com/robfig/soy/data"
)

// Case is a generated bundle with the data needed to render it.
type Case struct {
	Files   []*File `json:"files"`
	Globals []KV    `json:"globals,omitempty"` // name -> literal value
	Data    []DVal  `json:"data"`              // data sets (maps)
	IJ      []DVal  `json:"ij"`                // injected data sets (maps); a null entry = no $ij
	Chaos   bool    `json:"chaos,omitempty"`
	Entries []Entry `json:"entries"` // what to render
	// GlobalsFile: the globals reach the bundle through AddGlobalsFile instead of AddGlobalsMap
	GlobalsFile bool `json:"globals_file,omitempty"`
	// OneError: the bundle was made invalid by exactly one injected error, so the compile error
	// text must not depend on the order in which the files are added
	OneError bool `json:"one_error,omitempty"`
	// GlobalsSplit: the globals reach the bundle through two sources (two maps, or a map and a file)
	GlobalsSplit bool `json:"globals_split,omitempty"`

	held [2]data.Map // the application's own globals maps: the same objects for every bundle built from this case
}

// HeldGlobals returns the application's globals maps for this case: built once, handed to every
// bundle made from the case (a library that adopts or mutates a caller's map then shows it).
// With GlobalsSplit the entries are divided between two maps, otherwise the second is empty.
func (c *Case) HeldGlobals() (data.Map, data.Map) {
	if c.held[0] == nil {
		c.held[0], c.held[1] = data.Map{}, data.Map{}
		for i, kv := range c.Globals {
			if c.GlobalsSplit && i%2 == 1 {
				c.held[1][kv.K] = kv.V.Value()
			} else {
				c.held[0][kv.K] = kv.V.Value()
			}
		}
	}
	return c.held[0], c.held[1]
}

// Entry names a template and the data/ij set to render it with.
type Entry struct {
	Template string `json:"template"`
	Data     int    `json:"data"`
	IJ       int    `json:"ij"`
}

// File is one Soy source file.
type File struct {
	Name       string      `json:"name"`
	Namespace  string      `json:"namespace"`
	Autoescape string      `json:"autoescape,omitempty"`
	Aliases    []string    `json:"aliases,omitempty"`
	Templates  []*Template `json:"templates"`
	// Text, if set, overrides printing (hand-written or mutated source).
	Text string `json:"text,omitempty"`
}

// Template is one template.
type Template struct {
	Name       string  `json:"name"` // without namespace, no leading dot
	Params     []Param `json:"params,omitempty"`
	Header     bool    `json:"header,omitempty"` // {@param} instead of soydoc
	NoDoc      bool    `json:"nodoc,omitempty"`
	Autoescape string  `json:"autoescape,omitempty"`
	Private    bool    `json:"private,omitempty"`
	Body       []*Node `json:"body"`
}

// Param is a declared parameter.
type Param struct {
	Name     string `json:"name"`
	Optional bool   `json:"optional,omitempty"`
}

// Node is a body node.  K selects which fields are used.
type Node struct {
	K     string   `json:"k"`
	S     string   `json:"s,omitempty"`    // text / css suffix / special char name / literal body / msg desc
	E     string   `json:"e,omitempty"`    // expression
	Dirs  []string `json:"dirs,omitempty"` // print directives, e.g. "|truncate:3"
	Var   string   `json:"var,omitempty"`  // let / loop variable (no $)
	Body  []*Node  `json:"body,omitempty"`
	Else  []*Node  `json:"else,omitempty"`  // else / ifempty / plural default
	Conds []*Cond  `json:"conds,omitempty"` // if: elseif branches after the first; switch/plural: cases
	Tmpl  string   `json:"tmpl,omitempty"`  // call target as written (".t", "ns.t", "alias.t")
	Data  string   `json:"data,omitempty"`  // call data attr: "all" or an expression
	Args  []*Arg   `json:"args,omitempty"`
	M     string   `json:"m,omitempty"` // msg meaning
}

// Cond is an elseif branch or a switch / plural case.
type Cond struct {
	E    string  `json:"e"` // condition, or comma separated case values
	Body []*Node `json:"body"`
}

// Arg is a call parameter.
type Arg struct {
	Key  string  `json:"key"`
	E    string  `json:"e,omitempty"`
	Body []*Node `json:"body,omitempty"`
}

// KV is an ordered map entry.
type KV struct {
	K string `json:"k"`
	V DVal   `json:"v"`
}

// DVal is a typed data value (JSON numbers alone cannot tell int from float).
type DVal struct {
	T string  `json:"t"` // null undef bool int float str list map
	B bool    `json:"b,omitempty"`
	I int64   `json:"i,omitempty"`
	F float64 `json:"f,omitempty"`
	S string  `json:"s,omitempty"`
	L []DVal  `json:"l,omitempty"`
	M []KV    `json:"m,omitempty"`
}

// Value converts to soy data.
func (d DVal) Value() data.Value {
	switch d.T {
	case "null", "":
		return data.Null{}
	case "undef":
		return data.Undefined{}
	case "bool":
		return data.Bool(d.B)
	case "int":
		return data.Int(d.I)
	case "float":
		return data.Float(d.F)
	case "str":
		return data.String(d.S)
	case "list":
		l := make(data.List, len(d.L))
		for i, x := range d.L {
			l[i] = x.Value()
		}
		return l
	case "map":
		return d.Map()
	}
	return data.Null{}
}

// Map converts a map-typed value; a non-map gives nil.
func (d DVal) Map() data.Map {
	if d.T != "map" {
		return nil
	}
	m := make(data.Map, len(d.M))
	for _, kv := range d.M {
		m[kv.K] = kv.V.Value()
	}
	return m
}

// Literal renders a primitive as a Soy literal (for globals).
func (d DVal) Literal() string {
	switch d.T {
	case "bool":
		return fmt.Sprint(d.B)
	case "int":
		return fmt.Sprint(d.I)
	case "float":
		s := fmt.Sprintf("%g", d.F)
		if !strings.ContainsAny(s, ".e") {
			s += ".0"
		}
		return s
	case "str":
		return Quote(d.S)
	}
	return "null"
}

// Quote renders a Soy single-quoted string literal.
func Quote(s string) string {
	var sb strings.Builder
	sb.WriteByte('\'')
	for _, r := range s {
		switch r {
		case '\'':
			sb.WriteString(`\'`)
		case '\\':
			sb.WriteString(`\\`)
		case '\n':
			sb.WriteString(`\n`)
		case '\t':
			sb.WriteString(`\t`)
		case '\r':
			sb.WriteString(`\r`)
		default:
			sb.WriteRune(r)
		}
	}
	sb.WriteByte('\'')
	return sb.String()
}

// Source prints a file.
func (f *File) Source() string {
	if f.Text != "" {
		return f.Text
	}
	var sb strings.Builder
	sb.WriteString("{namespace " + f.Namespace)
	if f.Autoescape != "" {
		fmt.Fprintf(&sb, " autoescape=%q", f.Autoescape)
	}
	sb.WriteString("}\n")
	for _, a := range f.Aliases {
		sb.WriteString("{alias " + a + "}\n")
	}
	for _, t := range f.Templates {
		sb.WriteString("\n")
		if !t.Header && !t.NoDoc {
			sb.WriteString("/**\n")
			for _, p := range t.Params {
				if p.Optional {
					sb.WriteString(" * @param? " + p.Name + "\n")
				} else {
					sb.WriteString(" * @param " + p.Name + "\n")
				}
			}
			sb.WriteString(" */\n")
		}
		sb.WriteString("{template ." + t.Name)
		if t.Autoescape != "" {
			fmt.Fprintf(&sb, " autoescape=%q", t.Autoescape)
		}
		if t.Private {
			sb.WriteString(` private="true"`)
		}
		sb.WriteString("}\n")
		if t.Header {
			for _, p := range t.Params {
				if p.Optional {
					sb.WriteString("{@param? " + p.Name + ": ?}\n")
				} else {
					sb.WriteString("{@param " + p.Name + ": ?}\n")
				}
			}
		}
		printNodes(&sb, t.Body)
		sb.WriteString("\n{/template}\n")
	}
	return sb.String()
}

func printExprTag(sb *strings.Builder, e string, dirs []string) {
	// a print tag cannot start with '(' and a leading '-' is fragile: use the explicit command
	if strings.HasPrefix(e, "(") || strings.HasPrefix(e, "-") || strings.HasPrefix(e, "not ") {
		sb.WriteString("{print " + e)
	} else {
		sb.WriteString("{" + e)
	}
	for _, d := range dirs {
		sb.WriteString(d)
	}
	sb.WriteString("}")
}

func printNodes(sb *strings.Builder, nodes []*Node) {
	for _, n := range nodes {
		printNode(sb, n)
	}
}

func printNode(sb *strings.Builder, n *Node) {
	switch n.K {
	case "text":
		sb.WriteString(n.S)
	case "print":
		printExprTag(sb, n.E, n.Dirs)
	case "if":
		sb.WriteString("{if " + n.E + "}")
		printNodes(sb, n.Body)
		for _, c := range n.Conds {
			sb.WriteString("{elseif " + c.E + "}")
			printNodes(sb, c.Body)
		}
		if n.Else != nil {
			sb.WriteString("{else}")
			printNodes(sb, n.Else)
		}
		sb.WriteString("{/if}")
	case "switch":
		sb.WriteString("{switch " + n.E + "}")
		if n.Else != nil && n.S == "default-first" {
			sb.WriteString("{default}")
			printNodes(sb, n.Else)
		}
		for _, c := range n.Conds {
			sb.WriteString("{case " + c.E + "}")
			printNodes(sb, c.Body)
		}
		if n.Else != nil && n.S != "default-first" {
			sb.WriteString("{default}")
			printNodes(sb, n.Else)
		}
		sb.WriteString("{/switch}")
	case "foreach":
		sb.WriteString("{foreach $" + n.Var + " in " + n.E + "}")
		printNodes(sb, n.Body)
		if n.Else != nil {
			sb.WriteString("{ifempty}")
			printNodes(sb, n.Else)
		}
		sb.WriteString("{/foreach}")
	case "for":
		sb.WriteString("{for $" + n.Var + " in " + n.E + "}")
		printNodes(sb, n.Body)
		sb.WriteString("{/for}")
	case "letv":
		sb.WriteString("{let $" + n.Var + ": " + n.E + " /}")
	case "letc":
		sb.WriteString("{let $" + n.Var + "}")
		printNodes(sb, n.Body)
		sb.WriteString("{/let}")
	case "call":
		sb.WriteString("{call " + n.Tmpl)
		if n.Data != "" {
			fmt.Fprintf(sb, ` data="%s"`, n.Data)
		}
		if len(n.Args) == 0 {
			sb.WriteString(" /}")
			return
		}
		sb.WriteString("}")
		for _, a := range n.Args {
			if a.Body != nil {
				sb.WriteString("{param " + a.Key + "}")
				printNodes(sb, a.Body)
				sb.WriteString("{/param}")
			} else {
				sb.WriteString("{param " + a.Key + ": " + a.E + " /}")
			}
		}
		sb.WriteString("{/call}")
	case "css":
		if n.E != "" {
			sb.WriteString("{css " + n.E + ", " + n.S + "}")
		} else {
			sb.WriteString("{css " + n.S + "}")
		}
	case "log":
		sb.WriteString("{log}")
		printNodes(sb, n.Body)
		sb.WriteString("{/log}")
	case "literal":
		sb.WriteString("{literal}" + n.S + "{/literal}")
	case "sp":
		sb.WriteString("{" + n.S + "}")
	case "debugger":
		sb.WriteString("{debugger}")
	case "msg":
		sb.WriteString("{msg")
		if n.M != "" {
			fmt.Fprintf(sb, " meaning=%q", n.M)
		}
		fmt.Fprintf(sb, " desc=%q}", n.S)
		printNodes(sb, n.Body)
		sb.WriteString("{/msg}")
	case "plural":
		sb.WriteString("{plural " + n.E + "}")
		for _, c := range n.Conds {
			sb.WriteString("{case " + c.E + "}")
			printNodes(sb, c.Body)
		}
		sb.WriteString("{default}")
		printNodes(sb, n.Else)
		sb.WriteString("{/plural}")
	case "raw":
		sb.WriteString(n.S) // arbitrary source text (chaos mode)
	}
}

// GlobalsMap converts the globals.
func (c *Case) GlobalsMap() data.Map {
	m := data.Map{}
	for _, kv := range c.Globals {
		m[kv.K] = kv.V.Value()
	}
	return m
}

// Skeleton is a structural fingerprint of the case (node kinds, ignoring names and literals).
func (c *Case) Skeleton() string {
	var sb strings.Builder
	var walk func(ns []*Node)
	walk = func(ns []*Node) {
		for _, n := range ns {
			sb.WriteString(n.K)
			if len(n.Dirs) > 0 {
				sb.WriteString("|" + fmt.Sprint(len(n.Dirs)))
			}
			if n.Data != "" {
				if n.Data == "all" {
					sb.WriteString("@all")
				} else {
					sb.WriteString("@d")
				}
			}
			sb.WriteString("(")
			walk(n.Body)
			for _, c := range n.Conds {
				sb.WriteString(";")
				walk(c.Body)
			}
			if n.Else != nil {
				sb.WriteString("/")
				walk(n.Else)
			}
			for _, a := range n.Args {
				if a.Body != nil {
					sb.WriteString("P(")
					walk(a.Body)
					sb.WriteString(")")
				} else {
					sb.WriteString("p")
				}
			}
			sb.WriteString(")")
		}
	}
	for _, f := range c.Files {
		sb.WriteString("F" + f.Autoescape + "[")
		for _, t := range f.Templates {
			sb.WriteString("T" + t.Autoescape + fmt.Sprint(len(t.Params), t.Header) + "{")
			walk(t.Body)
			sb.WriteString("}")
		}
		sb.WriteString("]")
	}
	return sb.String()
}

// Kinds returns the set of node kinds used (for probes).
func (c *Case) Kinds() []string {
	set := map[string]bool{}
	var walk func(ns []*Node)
	walk = func(ns []*Node) {
		for _, n := range ns {
			set[n.K] = true
			if n.K == "call" {
				if n.Data == "all" {
					set["call-data-all"] = true
				} else if n.Data != "" {
					set["call-data-expr"] = true
				}
			}
			if n.K == "print" {
				for _, d := range n.Dirs {
					name := strings.TrimPrefix(d, "|")
					if i := strings.Index(name, ":"); i >= 0 {
						name = name[:i]
					}
					set["dir-"+name] = true
				}
			}
			walk(n.Body)
			walk(n.Else)
			for _, c := range n.Conds {
				walk(c.Body)
			}
			for _, a := range n.Args {
				if a.Body != nil {
					set["param-content"] = true
				}
				walk(a.Body)
			}
		}
	}
	for _, f := range c.Files {
		for _, t := range f.Templates {
			walk(t.Body)
		}
	}
	out := make([]string, 0, len(set))
	for k := range set {
		out = append(out, k)
	}
	sort.Strings(out)
	return out
}
