//go:build race

package simrt

import (
	"runtime"
	"unsafe"
)

// RaceBuild reports whether the race detector is compiled in.
const RaceBuild = true

//go:norace
func raceDisable() { runtime.RaceDisable() }

//go:norace
func raceEnable() { runtime.RaceEnable() }

//go:norace
func raceAcquire(p unsafe.Pointer) { runtime.RaceAcquire(p) }

//go:norace
func raceReleaseMerge(p unsafe.Pointer) { runtime.RaceReleaseMerge(p) }
