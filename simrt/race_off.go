//go:build !race

package simrt

// RaceBuild reports whether the race detector is compiled in.
const RaceBuild = false

func raceDisable() {}
func raceEnable()  {}
