package faults

import (
	"bytes"
	"testing"

	"github.com/robfig/soy"
	"github.com/robfig/soy/ast"
	"github.com/robfig/soy/data"
	"github.com/robfig/soy/soyhtml"
)

func TestPOBundle(t *testing.T) {
	src := "{namespace a}\n/**\n * @param n\n * @param b\n */\n{template .t}\n{msg desc=\"d\"}Hello <b>{$b}</b> \"q\" \\ x{/msg}|{msg desc=\"\"}{plural $n}{case 1}one {$b}{default}{$n} many{/plural}{/msg}\n{/template}\n"
	reg, err := soy.NewBundle().AddTemplateString("a.soy", src).Compile()
	if err != nil {
		t.Fatal(err)
	}
	var msgs []*ast.MsgNode
	for _, tm := range reg.Templates {
		WalkMsgs(tm.Node, func(m *ast.MsgNode) { msgs = append(msgs, m) })
	}
	b, ok := POBundle(msgs)
	if !ok {
		t.Fatalf("no bundle:\n%s", POText(msgs))
	}
	var buf bytes.Buffer
	err = soyhtml.NewTofu(reg).NewRenderer("a.t").WithMessages(b).Execute(&buf, data.Map{"n": data.Int(3), "b": data.String("x")})
	if err != nil {
		t.Fatal(err)
	}
	want := "[po]Hello <b>x</b> \"q\" \\ x|[po]3 many"
	if buf.String() != want {
		t.Fatalf("got %q want %q\n%s", buf.String(), want, POText(msgs))
	}
}
