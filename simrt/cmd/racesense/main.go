// Command racesense is the sensitivity self-test of the hidden baton: built with -race, its
// "racy" mode must be reported by the race detector in every execution, its "locked" and
// "independent" modes never (see DESIGN.md 3.3).
package main

import (
	"fmt"
	"os"
	"sync"

	"verif/simrt"
)

var shared []int
var counter int
var table = map[string]int{}

func main() {
	mode := os.Args[1]
	var mu sync.Mutex
	res := simrt.Run(simrt.Config{Budget: 1_000_000, Chooser: simrt.NewRandomChooser(7, 2)}, func() {
		var wg sync.WaitGroup
		for k := 0; k < 3; k++ {
			k := k
			wg.Add(1)
			simrt.Spawn("t", func() {
				defer wg.Done()
				local := 0
				for i := 0; i < 20; i++ {
					simrt.Yield(10 + k)
					switch mode {
					case "racy-slice":
						shared = append(shared, i)
					case "racy-var":
						counter++
					case "racy-map":
						table["k"]++
					case "locked":
						mu.Lock()
						shared = append(shared, i)
						counter++
						table["k"]++
						mu.Unlock()
					case "independent":
						local += i
					}
				}
				_ = local
			})
		}
		simrt.Idle()
		wg.Wait()
	})
	fmt.Printf("trace=%x steps=%d switches=%d\n", res.TraceHash, res.Steps, res.Switches)
}
