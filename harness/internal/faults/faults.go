// Package faults holds the fault-injecting stubs that enter soy through the seams its API
// already has: io.Writer, io.Reader, user functions and directives, soymsg.Bundle.
package faults

import (
	"context"
	"errors"
	"fmt"
	"io"
	"net"
	"os"
	"syscall"

	"github.com/robfig/soy/ast"
	"github.com/robfig/soy/data"
	"github.com/robfig/soy/soymsg"
)

// ErrInjected is what a faulted write or read returns.
var ErrInjected = errors.New("injected I/O fault")

// NetErr is an error type whose method dereferences its receiver, as many real error types do;
// a writer that returns a typed-nil *NetErr hands the renderer a non-nil error interface whose
// Error method panics.
type NetErr struct{ Op string }

func (e *NetErr) Error() string { return "net: " + e.Op }

// Writer is a fault-injecting, recording io.Writer.
type Writer struct {
	// plan
	FailCall  int  // 1-based index of the failing call; 0 = none
	Sticky    bool // all calls >= FailCall fail
	Partial   bool // the failing call accepts half of its bytes
	FullCount bool // the failing call accepts all of its bytes and still returns an error
	TypedNil  bool // the error returned is a typed-nil pointer (its Error method panics)
	ErrKind   int  // which error value a failing call returns (index into WriteErrors; 0 = ErrInjected)
	Capacity  int  // total bytes accepted before (n<len, err) for ever; -1 = unlimited
	FailEmpty bool // zero-length writes fail too once the fault is active
	// record
	Accepted                []byte
	Sizes                   []int
	Calls                   int
	Failed                  int // number of calls that returned an error
	FirstFailCall           int
	AcceptedBeforeFirstFail int
}

// WriteErrors are the error values a failing writer may return: the harness's own, and the ones a
// network connection, a pipe, a file or a cancelled request produce (some of them wrapped).
var WriteErrors = []error{
	ErrInjected, io.ErrClosedPipe, net.ErrClosed, syscall.EPIPE, syscall.ECONNRESET, io.ErrShortWrite, io.EOF, io.ErrUnexpectedEOF, context.Canceled, context.DeadlineExceeded, os.ErrDeadlineExceeded, os.ErrClosed,
	&net.OpError{Op: "write", Net: "tcp", Err: os.NewSyscallError("write", syscall.EPIPE)}, &os.PathError{Op: "write", Path: "/dev/stdout", Err: syscall.ENOSPC}, fmt.Errorf("flush: %w", io.ErrClosedPipe),
}

func (w *Writer) err() error {
	if w.ErrKind > 0 && w.ErrKind < len(WriteErrors) {
		return WriteErrors[w.ErrKind]
	}
	return ErrInjected
}

// NewWriter returns a writer without faults.
func NewWriter() *Writer { return &Writer{Capacity: -1} }

func (w *Writer) fail() {
	if w.Failed == 0 {
		w.FirstFailCall = w.Calls
		w.AcceptedBeforeFirstFail = len(w.Accepted)
	}
	w.Failed++
}

func (w *Writer) Write(p []byte) (int, error) {
	w.Calls++
	w.Sizes = append(w.Sizes, len(p))
	if w.FailCall > 0 && (w.Calls == w.FailCall || (w.Sticky && w.Calls > w.FailCall)) {
		n := 0
		if w.Partial && w.Calls == w.FailCall {
			n = len(p) / 2
		}
		if w.FullCount && w.Calls == w.FailCall {
			n = len(p)
		}
		w.Accepted = append(w.Accepted, p[:n]...)
		w.fail()
		if w.TypedNil {
			var e *NetErr
			return n, e
		}
		return n, w.err()
	}
	if w.Capacity >= 0 {
		room := w.Capacity - len(w.Accepted)
		if room < len(p) {
			if room < 0 {
				room = 0
			}
			w.Accepted = append(w.Accepted, p[:room]...)
			w.fail()
			return room, w.err()
		}
	}
	w.Accepted = append(w.Accepted, p...)
	return len(p), nil
}

// FlushWriter is a Writer that also has the Flush method of buffered writers; FlushErr makes
// Flush report the earlier write failure, otherwise it returns nil whatever happened before.
type FlushWriter struct {
	*Writer
	FlushErr bool
	Flushes  int
}

func (f *FlushWriter) Flush() error {
	f.Flushes++
	if f.FlushErr && f.Writer.Failed > 0 {
		return ErrInjected
	}
	return nil
}

// StringWriter is a Writer that also implements io.StringWriter (io.WriteString prefers it).
type StringWriter struct{ *Writer }

func (s *StringWriter) WriteString(x string) (int, error) { return s.Writer.Write([]byte(x)) }

// BufferLike is a Writer with the method set of *bufio.Writer and *bytes.Buffer (Write, WriteByte,
// WriteString): code that special-cases "in-memory" writers by their methods meets it.
type BufferLike struct{ *Writer }

func (b *BufferLike) WriteString(x string) (int, error) { return b.Writer.Write([]byte(x)) }

func (b *BufferLike) WriteByte(c byte) error {
	_, err := b.Writer.Write([]byte{c})
	return err
}

// Shaped returns w dressed with the optional interface named by shape ("" = plain io.Writer).
func Shaped(w *Writer, shape string) io.Writer {
	switch shape {
	case "flush-nil":
		return &FlushWriter{Writer: w}
	case "flush-err":
		return &FlushWriter{Writer: w, FlushErr: true}
	case "stringwriter":
		return &StringWriter{w}
	case "bufferlike":
		return &BufferLike{w}
	}
	return w
}

// Reader is a fault-injecting io.Reader over a fixed input.
type Reader struct {
	Data     []byte
	Chunk    int  // max bytes per Read (0 = unlimited)
	FailAt   int  // byte offset at which an error is returned; -1 = never
	WithData bool // the failing call also returns the bytes before FailAt
	EOFAt    int  // early EOF at this offset; -1 = none
	StallAt  int  // from this offset on every Read returns (0, nil); 0 = never
	pos      int
	Fired    bool
	Stalls   int
}

func (r *Reader) Read(p []byte) (int, error) {
	if r.StallAt > 0 && r.pos >= r.StallAt-1 {
		r.Fired = true
		r.Stalls++
		if r.Stalls > 1000 {
			return 0, ErrInjected // a reader that makes no progress for ever would hang any caller; give up eventually
		}
		return 0, nil
	}
	if r.EOFAt >= 0 && r.pos >= r.EOFAt {
		r.Fired = true
		return 0, io.EOF
	}
	if r.FailAt >= 0 && r.pos >= r.FailAt {
		r.Fired = true
		return 0, ErrInjected
	}
	if r.pos >= len(r.Data) {
		return 0, io.EOF
	}
	n := len(p)
	if r.Chunk > 0 && n > r.Chunk {
		n = r.Chunk
	}
	if n > len(r.Data)-r.pos {
		n = len(r.Data) - r.pos
	}
	limit := -1
	if r.FailAt >= 0 {
		limit = r.FailAt
	}
	if r.StallAt > 0 && (limit < 0 || r.StallAt-1 < limit) {
		limit = r.StallAt - 1
	}
	if r.EOFAt >= 0 && (limit < 0 || r.EOFAt < limit) {
		limit = r.EOFAt
	}
	if limit >= 0 && r.pos+n >= limit {
		n = limit - r.pos
		copy(p, r.Data[r.pos:r.pos+n])
		r.pos += n
		if r.WithData && r.FailAt == limit {
			r.Fired = true
			return n, ErrInjected
		}
		if n == 0 {
			return r.Read(p)
		}
		return n, nil
	}
	copy(p, r.Data[r.pos:r.pos+n])
	r.pos += n
	return n, nil
}

// PanicKind selects what the fault function panics with.
type PanicKind int

const (
	PanicError PanicKind = iota
	PanicString
	PanicRuntime
	PanicStruct
	NumPanicKinds
)

func (k PanicKind) String() string {
	return [...]string{"error", "string", "runtime-error", "struct"}[k]
}

type customPanic struct{ Code int }

// Injector counts invocations of the fault function / directive and panics at the planned one.
// One injector is used by one render at a time.
type Injector struct {
	At    int // 1-based invocation that panics; 0 = never
	Kind  PanicKind
	Calls int
	Fired bool
}

// Hit is called on every invocation.
func (in *Injector) Hit() {
	in.Calls++
	if in.At > 0 && in.Calls == in.At {
		in.Fired = true
		switch in.Kind {
		case PanicError:
			panic(fmt.Errorf("injected failure #%d", in.Calls))
		case PanicString:
			panic("injected failure (string)")
		case PanicRuntime:
			var m map[string]int
			m["x"] = 1 // runtime.Error: assignment to entry in nil map
		default:
			panic(customPanic{Code: in.Calls})
		}
	}
}

// VFailFunc is the identity function that consults an injector.
func VFailFunc(in **Injector) func([]data.Value) data.Value {
	return func(args []data.Value) data.Value {
		if *in != nil {
			(*in).Hit()
		}
		if len(args) == 0 {
			return data.Null{}
		}
		return args[0]
	}
}

// VFailDirective is the identity directive that consults an injector.
func VFailDirective(in **Injector) func(data.Value, []data.Value) data.Value {
	return func(v data.Value, _ []data.Value) data.Value {
		if *in != nil {
			(*in).Hit()
		}
		return v
	}
}

// BundleKind selects the behaviour of the stub message bundle.
type BundleKind int

const (
	BundleIdentity BundleKind = iota
	BundleReversed
	BundlePartial
	BundleUnknownPlaceholder // a placeholder name the message does not have
	BundlePluralForPlain     // a plural part for a message that has no plural
	BundlePluralCaseHigh     // PluralCase beyond the cases
	BundlePluralCaseNegative // PluralCase negative
	NumBundleKinds
)

func (k BundleKind) String() string {
	return [...]string{"identity", "reversed", "partial", "unknown-placeholder", "plural-for-plain", "plural-case-high", "plural-case-negative"}[k]
}

// Bundle is a stub soymsg.Bundle built from the compiled templates.
type Bundle struct {
	Kind     BundleKind
	Msgs     map[uint64]*soymsg.Message
	MsgCalls int
	PlCalls  int
	// misbehaviour is applied from this Message call on (1-based; 0 = from the start); before
	// that the identity catalogue Good answers
	From       int
	Good       map[uint64]*soymsg.Message
	Misbehaved int
}

func (b *Bundle) Locale() string { return "xx" }

func (b *Bundle) Message(id uint64) *soymsg.Message {
	b.MsgCalls++
	if b.Good != nil && b.From > 0 && b.MsgCalls < b.From {
		return b.Good[id]
	}
	if b.Msgs[id] != nil {
		b.Misbehaved++
	}
	return b.Msgs[id]
}

func (b *Bundle) PluralCase(n int) int {
	b.PlCalls++
	if !(b.From > 0 && b.MsgCalls < b.From) {
		switch b.Kind {
		case BundlePluralCaseHigh:
			b.Misbehaved++
			return 1 << 20
		case BundlePluralCaseNegative:
			b.Misbehaved++
			return -1
		}
	}
	if n == 1 {
		return 0
	}
	return 1
}

func partsOf(n ast.ParentNode) []soymsg.Part {
	var parts []soymsg.Part
	for _, c := range n.Children() {
		switch c := c.(type) {
		case *ast.RawTextNode:
			parts = append(parts, soymsg.RawTextPart{Text: string(c.Text)})
		case *ast.MsgPlaceholderNode:
			parts = append(parts, soymsg.PlaceholderPart{Name: c.Name})
		case *ast.MsgPluralNode:
			// two plural forms ("one", "other"), taken from the default branch and the first case
			pp := soymsg.PluralPart{VarName: c.VarName}
			one := partsOf(c.Default)
			if len(c.Cases) > 0 {
				one = partsOf(c.Cases[len(c.Cases)-1].Body)
			}
			pp.Cases = append(pp.Cases,
				soymsg.PluralCase{Spec: soymsg.PluralSpec{Type: soymsg.PluralSpecOne}, Parts: one},
				soymsg.PluralCase{Spec: soymsg.PluralSpec{Type: soymsg.PluralSpecOther}, Parts: partsOf(c.Default)})
			parts = append(parts, pp)
		}
	}
	return parts
}

// WalkMsgs calls f for every msg node below n.
func WalkMsgs(n ast.Node, f func(*ast.MsgNode)) {
	if n == nil {
		return
	}
	if m, ok := n.(*ast.MsgNode); ok {
		f(m)
		return
	}
	if p, ok := n.(ast.ParentNode); ok {
		for _, c := range p.Children() {
			if c != nil {
				WalkMsgs(c, f)
			}
		}
	}
}

// NewBundle builds the catalogue for the given message nodes.
func NewBundle(kind BundleKind, msgs []*ast.MsgNode) *Bundle {
	b := &Bundle{Kind: kind, Msgs: map[uint64]*soymsg.Message{}}
	if kind >= BundleUnknownPlaceholder {
		b.Good = NewBundle(BundleIdentity, msgs).Msgs
	}
	for _, m := range msgs {
		parts := partsOf(m.Body)
		switch kind {
		case BundleReversed:
			for l, r := 0, len(parts)-1; l < r; l, r = l+1, r-1 {
				parts[l], parts[r] = parts[r], parts[l]
			}
			parts = append([]soymsg.Part{soymsg.RawTextPart{Text: "[xx]"}}, parts...)
			// a translation may mention a placeholder more than once
			for _, p := range parts {
				if ph, ok := p.(soymsg.PlaceholderPart); ok {
					parts = append(parts, soymsg.RawTextPart{Text: " / "}, ph)
					break
				}
			}
		case BundlePartial:
			// chosen by id, not by position: the catalogue must not depend on the order in which
			// the harness happened to find the messages
			if m.ID%3 == 1 {
				continue
			}
		case BundleUnknownPlaceholder:
			parts = append(parts, soymsg.PlaceholderPart{Name: "NO_SUCH_PLACEHOLDER"})
		case BundlePluralForPlain:
			parts = append(parts, soymsg.PluralPart{VarName: "NO_SUCH_VAR", Cases: []soymsg.PluralCase{{Parts: []soymsg.Part{soymsg.RawTextPart{Text: "x"}}}}})
		}
		b.Msgs[m.ID] = &soymsg.Message{ID: m.ID, Parts: parts}
	}
	return b
}
