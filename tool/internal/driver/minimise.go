package driver

import (
	"bytes"
	"encoding/json"
	"fmt"
	"path/filepath"
	"strings"
	"time"
)

// minimise shrinks the case of a reproduced failure: ddmin over every JSON array of the case
// (operation lists, schedule and map-order decisions, fault lists, files, templates, body
// nodes) and over the strings the worker marked under "shrink_strings".  Every candidate is
// executed in a fresh worker process and kept only if the same violation (class and site)
// shows again.
func (e *Env) minimise(s *Spec, f *Failure, doc *ReplayDoc, match func(*Failure, *ReplayResult) bool, env []string) *ReplayDoc {
	var root interface{}
	dec := json.NewDecoder(bytes.NewReader(doc.Case))
	dec.UseNumber() // 64-bit seeds must survive the round trip
	if err := dec.Decode(&root); err != nil {
		return doc
	}
	deadline := time.Now().Add(90 * time.Second)
	tries, kept := 0, 0
	cand := filepath.Join(e.Scratch, "min-cand.json")
	test := func(v interface{}) bool {
		if time.Now().After(deadline) || tries > 1500 {
			return false
		}
		tries++
		b, err := json.Marshal(v)
		if err != nil {
			return false
		}
		d := *doc
		d.Case = b
		if writeJSON(cand, &d) != nil {
			return false
		}
		rr := e.RunReplay(f.Variant, s.ID, cand, 60*time.Second, env, s.extra(e)...)
		if rr.Trouble != "" {
			return false
		}
		ok := match(f, rr)
		if ok {
			kept++
		}
		return ok
	}
	before := sizeOf(root)
	for pass := 0; pass < 4; pass++ {
		changed := false
		// arrays, shallow first
		paths := arrayPaths(root, nil, 0)
		for _, p := range paths {
			arr, ok := getPath(root, p).([]interface{})
			if !ok || len(arr) == 0 {
				continue
			}
			newArr := ddminList(arr, func(c []interface{}) bool {
				return test(setPath(deepCopy(root), p, c))
			})
			if len(newArr) < len(arr) {
				root = setPath(root, p, newArr)
				changed = true
			}
		}
		// strings marked by the worker
		for _, sp := range shrinkStrings(root) {
			p := splitPath(sp)
			str, ok := getPath(root, p).(string)
			if !ok || len(str) == 0 {
				continue
			}
			bs := []byte(str)
			items := make([]interface{}, len(bs))
			for i := range bs {
				items[i] = bs[i]
			}
			res := ddminList(items, func(c []interface{}) bool {
				nb := make([]byte, len(c))
				for i := range c {
					nb[i] = c[i].(byte)
				}
				return test(setPath(deepCopy(root), p, string(nb)))
			})
			if len(res) < len(items) {
				nb := make([]byte, len(res))
				for i := range res {
					nb[i] = res[i].(byte)
				}
				root = setPath(root, p, string(nb))
				changed = true
			}
		}
		if !changed || time.Now().After(deadline) {
			break
		}
	}
	b, err := json.Marshal(root)
	if err != nil {
		return doc
	}
	out := *doc
	out.Case = b
	out.Minimised = fmt.Sprintf("size %d -> %d (%d candidates, %d accepted)", before, sizeOf(root), tries, kept)
	// the minimised file must still fail in a fresh process; otherwise keep the original
	final := filepath.Join(e.Scratch, "min-final.json")
	if writeJSON(final, &out) != nil {
		return doc
	}
	rr := e.RunReplay(f.Variant, s.ID, final, 0, env, s.extra(e)...)
	if !match(f, rr) {
		return doc
	}
	if g := matched(f, rr); g != nil {
		out.Site, out.Detail = g.Site, g.Detail
	}
	e.logf("minimised %s: %s", f.Key(), out.Minimised)
	return &out
}

func sizeOf(v interface{}) int {
	b, _ := json.Marshal(v)
	return len(b)
}

// ddminList removes chunks of decreasing size while test stays true.
func ddminList(items []interface{}, test func([]interface{}) bool) []interface{} {
	cur := items
	if len(cur) > 0 && test(nil) {
		return nil
	}
	chunk := (len(cur) + 1) / 2
	for chunk >= 1 && len(cur) > 0 {
		removed := false
		for start := 0; start < len(cur); {
			end := start + chunk
			if end > len(cur) {
				end = len(cur)
			}
			cand := make([]interface{}, 0, len(cur)-(end-start))
			cand = append(cand, cur[:start]...)
			cand = append(cand, cur[end:]...)
			if len(cand) < len(cur) && test(cand) {
				cur = cand
				removed = true
			} else {
				start = end
			}
		}
		if chunk == 1 && !removed {
			break
		}
		if !removed || chunk > len(cur) {
			chunk /= 2
		}
	}
	return cur
}

type pathElem struct {
	key string
	idx int
	isI bool
}

func arrayPaths(v interface{}, prefix []pathElem, depth int) [][]pathElem {
	var out [][]pathElem
	type item struct {
		p []pathElem
		d int
	}
	var walk func(v interface{}, p []pathElem, d int)
	var items []item
	walk = func(v interface{}, p []pathElem, d int) {
		switch x := v.(type) {
		case []interface{}:
			cp := append([]pathElem(nil), p...)
			items = append(items, item{cp, d})
			for i, c := range x {
				walk(c, append(append([]pathElem(nil), p...), pathElem{idx: i, isI: true}), d+1)
			}
		case map[string]interface{}:
			keys := make([]string, 0, len(x))
			for k := range x {
				keys = append(keys, k)
			}
			sortStrings(keys)
			for _, k := range keys {
				if k == "shrink_strings" {
					continue
				}
				walk(x[k], append(append([]pathElem(nil), p...), pathElem{key: k}), d+1)
			}
		}
	}
	walk(v, prefix, depth)
	// shallow first, stable
	for d := 0; d < 64; d++ {
		for _, it := range items {
			if it.d == d {
				out = append(out, it.p)
			}
		}
	}
	return out
}

func sortStrings(s []string) {
	for i := 1; i < len(s); i++ {
		for j := i; j > 0 && s[j] < s[j-1]; j-- {
			s[j], s[j-1] = s[j-1], s[j]
		}
	}
}

func getPath(v interface{}, p []pathElem) interface{} {
	for _, e := range p {
		switch x := v.(type) {
		case []interface{}:
			if !e.isI || e.idx >= len(x) {
				return nil
			}
			v = x[e.idx]
		case map[string]interface{}:
			if e.isI {
				return nil
			}
			v = x[e.key]
		default:
			return nil
		}
	}
	return v
}

func setPath(root interface{}, p []pathElem, val interface{}) interface{} {
	if len(p) == 0 {
		return val
	}
	switch x := root.(type) {
	case []interface{}:
		if p[0].isI && p[0].idx < len(x) {
			x[p[0].idx] = setPath(x[p[0].idx], p[1:], val)
		}
		return x
	case map[string]interface{}:
		x[p[0].key] = setPath(x[p[0].key], p[1:], val)
		return x
	}
	return root
}

func deepCopy(v interface{}) interface{} {
	switch x := v.(type) {
	case []interface{}:
		c := make([]interface{}, len(x))
		for i := range x {
			c[i] = deepCopy(x[i])
		}
		return c
	case map[string]interface{}:
		c := make(map[string]interface{}, len(x))
		for k, e := range x {
			c[k] = deepCopy(e)
		}
		return c
	}
	return v
}

func shrinkStrings(root interface{}) []string {
	m, ok := root.(map[string]interface{})
	if !ok {
		return nil
	}
	arr, ok := m["shrink_strings"].([]interface{})
	if !ok {
		return nil
	}
	var out []string
	for _, a := range arr {
		if s, ok := a.(string); ok {
			out = append(out, s)
		}
	}
	return out
}

func splitPath(s string) []pathElem {
	var p []pathElem
	for _, part := range strings.Split(s, ".") {
		var idx int
		if _, err := fmt.Sscanf(part, "#%d", &idx); err == nil {
			p = append(p, pathElem{idx: idx, isI: true})
		} else {
			p = append(p, pathElem{key: part})
		}
	}
	return p
}
