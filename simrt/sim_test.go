package simrt

import (
	"sync"
	"testing"
)

func TestPingPong(t *testing.T) {
	for seed := uint64(0); seed < 50; seed++ {
		var got []int
		res := Run(Config{Budget: 100000, Chooser: NewRandomChooser(seed, 3)}, func() {
			c := make(chan int)
			Go(1, func() {
				for i := 0; i < 10; i++ {
					Yield(2)
					Send(c, i, 3)
				}
				Close(c, 4)
			})
			for {
				Yield(5)
				v, ok := Recv2(c, 6)
				if !ok {
					break
				}
				got = append(got, v)
			}
		})
		if len(got) != 10 || res.Deadlock || res.Budget || len(res.Leaks) != 0 {
			t.Fatalf("seed %d: got %v res %+v", seed, got, res)
		}
	}
}

func TestLeakAndDeadlock(t *testing.T) {
	res := Run(Config{Budget: 100000}, func() {
		c := make(chan int)
		Go(1, func() { Send(c, 1, 3); Send(c, 2, 3) })
		Recv(c, 6)
	})
	if len(res.Leaks) != 1 || res.Deadlock {
		t.Fatalf("want one leak: %+v", res)
	}
	res = Run(Config{Budget: 100000}, func() {
		c := make(chan int)
		Recv(c, 6)
	})
	if !res.Deadlock {
		t.Fatalf("want deadlock: %+v", res)
	}
	res = Run(Config{Budget: 1000}, func() {
		for {
			Yield(1)
		}
	})
	if !res.Budget {
		t.Fatalf("want budget: %+v", res)
	}
	res = Run(Config{Budget: 1000}, func() {
		Go(1, func() {
			for {
				Yield(1)
			}
		})
		c := make(chan int)
		Recv(c, 2)
	})
	if !res.Budget {
		t.Fatalf("want budget: %+v", res)
	}
}

func TestBuffered(t *testing.T) {
	for seed := uint64(0); seed < 50; seed++ {
		sum := 0
		res := Run(Config{Budget: 100000, Chooser: NewRandomChooser(seed, 2)}, func() {
			c := make(chan int, 2)
			var wg sync.WaitGroup
			for k := 0; k < 3; k++ {
				wg.Add(1)
				Go(1, func() {
					for i := 1; i <= 5; i++ {
						Yield(2)
						Send(c, i, 3)
					}
					wg.Done()
				})
			}
			for i := 0; i < 15; i++ {
				Yield(5)
				sum += Recv(c, 6)
			}
			Idle()
			wg.Wait()
		})
		if sum != 45 || res.Deadlock || res.Budget || len(res.Leaks) != 0 {
			t.Fatalf("seed %d: sum %v res %+v", seed, sum, res)
		}
	}
}

func TestReplay(t *testing.T) {
	run := func(ch Chooser) (string, *Result) {
		var log []byte
		res := Run(Config{Budget: 100000, Chooser: ch}, func() {
			var wg sync.WaitGroup
			for k := 0; k < 3; k++ {
				k := k
				wg.Add(1)
				Spawn("c", func() {
					for i := 0; i < 20; i++ {
						Yield(10 + k)
						appendLog(&log, byte('a'+k))
					}
					wg.Done()
				})
			}
			Idle()
			wg.Wait()
		})
		return string(log), res
	}
	for seed := uint64(1); seed < 30; seed++ {
		var ch Chooser
		switch seed % 4 {
		case 0:
			ch = NewRandomChooser(seed, 3)
		case 1:
			ch = NewPCT(seed, 3, 60)
		case 2:
			ch = &RoundRobin{Quantum: 1}
		case 3:
			ch = NewCoarse(seed)
		}
		l1, r1 := run(ch)
		l2, r2 := run(&Replay{List: r1.Decisions})
		if l1 != l2 || r2.Diverged {
			t.Fatalf("seed %d: replay differs\n%s\n%s\n%v", seed, l1, l2, r1.Decisions)
		}
		_ = r2
	}
}

//go:norace
func appendLog(l *[]byte, b byte) { *l = append(*l, b) }
