package props

import (
	"encoding/json"
	"fmt"
	"runtime"
	"strings"
	"time"

	"verif/harness/internal/corpus"
	"verif/harness/internal/pparse"
	"verif/harness/internal/wk"
	"verif/simrt"
)

// seqCase is the replay case of C18: a sequence of parse calls inside one simulated process.
type seqCase struct {
	Calls     []pparse.Call    `json:"calls"`
	Variant   int              `json:"sched_variant"`
	SchedSeed uint64           `json:"sched_seed"`
	Decisions []simrt.Decision `json:"decisions,omitempty"`
	Native    bool             `json:"native,omitempty"` // cross-check on the plain build with the real runtime
}

// scannerGoroutines counts the goroutines of the real runtime that are inside the scanner loop.
func scannerGoroutines() int {
	buf := make([]byte, 1<<20)
	for {
		n := runtime.Stack(buf, true)
		if n < len(buf) {
			return strings.Count(string(buf[:n]), "parse.(*lexer).run")
		}
		buf = make([]byte, 2*len(buf))
	}
}

// nativeLeakCheck executes the calls on the un-instrumented build and then looks at the real
// runtime: a goroutine blocked for ever stays for ever, so once the count has been stable for a
// while any scanner goroutine still alive is a leak (no false alarm on a slow machine).
func nativeLeakCheck(sc seqCase) (*wk.Failure, int) {
	base := scannerGoroutines()
	done := 0
	for _, c := range sc.Calls {
		c := c
		fin := make(chan struct{})
		go func() {
			defer close(fin)
			pparse.Exec(c)
		}()
		select {
		case <-fin:
		case <-time.After(10 * time.Second):
			return nil, done // a parse that does not return is C05's subject
		}
		done++
	}
	last, stable := -1, 0
	for i := 0; i < 200 && stable < 6; i++ {
		time.Sleep(25 * time.Millisecond)
		n := scannerGoroutines()
		if n == last {
			stable++
		} else {
			last, stable = n, 0
		}
		if n <= base {
			return nil, done
		}
	}
	if last > base {
		sc.Native = true
		sc.Decisions = nil
		b, _ := json.Marshal(sc)
		return &wk.Failure{Class: "native-leak", Site: "scanner goroutine alive in the real runtime after the parse calls returned",
			Detail: fmt.Sprintf("%d scanner goroutine(s) (frames of parse.(*lexer).run) are still alive %d ms after a sequence of %d parse calls returned, on the un-instrumented build", last-base, 150, len(sc.Calls)), Replay: b}, done
	}
	return nil, done
}

// trailing inputs: a complete expression followed by more tokens, errors inside quoted
// attribute expressions, inputs on the runtime-error path of the parser.
var c18Special = []pparse.Call{
	{Entry: "expr", Input: "1 2 3", Kind: "trailing"},
	{Entry: "expr", Input: "$a $b", Kind: "trailing"},
	{Entry: "expr", Input: "'a' 'b' 'c' 'd'", Kind: "trailing"},
	{Entry: "expr", Input: "f(1) g(2)", Kind: "trailing"},
	{Entry: "expr", Input: "1 }", Kind: "trailing"},
	{Entry: "expr", Input: "[1,2] [3]", Kind: "trailing"},
	{Entry: "expr", Input: "1 + 2 'x", Kind: "trailing-lexerror"},
	{Entry: "expr", Input: "1 \x00", Kind: "trailing-lexerror"},
	{Entry: "file", Input: "{namespace a}\n{template .t}\n{call .u data=\"$a +\"/}\n{/template}", Kind: "quoted-attr-error"},
	{Entry: "file", Input: "{namespace a}\n{template .t}\n{call .u data=\"$a $b\"/}\n{/template}", Kind: "quoted-attr-trailing"},
	{Entry: "file", Input: "{namespace a}\n{template .t}\n{css $x +, a}\n{/template}", Kind: "quoted-attr-error"},
	{Entry: "file", Input: "{namespace a}\n{template .t}\n{css $x $y, a}\n{/template}", Kind: "quoted-attr-trailing"},
	{Entry: "file", Input: "{namespace a}\n{template .t}\n{call .u}{param key=\"a\" value=\"1 2\"/}{/call}\n{/template}", Kind: "quoted-attr-trailing"},
	{Entry: "file", Input: "{namespace a}\n{template .t}\n{call .u}{param key=\"a\" value=\"(\"/}{/call}\n{/template}", Kind: "quoted-attr-error"},
	{Entry: "file", Input: "{namespace a}\n{template .t}\n{msg desc=\"\"}{plural $n}{case 'a'}x{default}y{/plural}{/msg}\n{/template}", Kind: "runtime-error-path"},
	{Entry: "file", Input: "{namespace a}\n{template .t}\n{msg desc=\"\"}{plural $n}{case 1, 2}x{default}y{/plural}{/msg}\n{/template}", Kind: "plural-error"},
	{Entry: "file", Input: "{namespace a}\n{template .t}\n{call /}\n{/template}", Kind: "runtime-error-path"},
	{Entry: "file", Input: "{namespace a}\n{template .t}\n{call name=\"\" /}\n{/template}", Kind: "runtime-error-path"},
	{Entry: "globals", Input: "A = 1 2 3\nB = 'x' 'y'\n", Kind: "globals-trailing"},
	{Entry: "globals", Input: "A = 1\nB = $x +\n", Kind: "globals-error"},
	{Entry: "globals", Input: "A = 1\n// c\n\nB = 2 }\nC = [1\n", Kind: "globals-trailing"},
}

func (w *parseWork) seqCall(r *simrt.RNG, thorough bool) pparse.Call {
	if r.Intn(60) == 0 {
		// an error early in a large file: whoever stops reading must still see the scanner out
		bad := []string{"{foo}", "{if}", "{print 1 2}", "{call .u data=\"[1 2\"/}", "{/if}", "{css $x +, a}", "{msg desc=\"\"}{plural $n}"}[r.Intn(7)]
		unit := []string{"hello {$x} world\n", "{if $x}a{else}b{/if} ", "<b>{$x|noAutoescape}</b>\n", "text // c\n"}[r.Intn(4)]
		size := (70 + r.Intn(60)) << 10
		return pparse.Call{Entry: "file", Input: "{namespace a}\n/** @param x */\n{template .t}\n" + bad + "\n" + strings.Repeat(unit, size/len(unit)) + "{/template}\n", Kind: "early-error-large"}
	}
	switch x := r.Intn(100); {
	case x < 12:
		return c18Special[r.Intn(len(c18Special))]
	case x < 20:
		// trailing tokens after a complete expression
		a := corpus.ExprAtoms[r.Intn(33)]
		return pparse.Call{Entry: "expr", Input: a + " " + corpus.ExprSequence(r, 1+r.Intn(3)), Kind: "trailing"}
	case x < 28:
		// error or trailing tokens inside a quoted attribute expression
		e := corpus.ExprSequence(r, 1+r.Intn(4))
		e = strings.NewReplacer("\"", "'", "\\", "", "\n", " ").Replace(e)
		tmpl := []string{
			"{namespace a}\n{template .t}\n{call .u data=\"%s\"/}\n{/template}",
			"{namespace a}\n{template .t}\n{css %s, a}\n{/template}",
			"{namespace a}\n{template .t}\n{call .u}{param key=\"a\" value=\"%s\"/}{/call}\n{/template}",
		}[r.Intn(3)]
		return pparse.Call{Entry: "file", Input: fmt.Sprintf(tmpl, e), Kind: "quoted-attr-gen"}
	case x < 36:
		// globals file
		var sb strings.Builder
		for i, n := 0, 1+r.Intn(4); i < n; i++ {
			switch r.Intn(6) {
			case 0:
				sb.WriteString("// comment\n")
			case 1:
				sb.WriteString("\n")
			default:
				fmt.Fprintf(&sb, "G%d = %s\n", i, strings.ReplaceAll(corpus.ExprSequence(r, 1+r.Intn(3)), "\n", " "))
			}
		}
		return pparse.Call{Entry: "globals", Input: sb.String(), Kind: "globals-gen"}
	case x < 44:
		// compile of 1-3 files
		var files []string
		for i, n := 0, 1+r.Intn(3); i < n; i++ {
			if r.Intn(3) == 0 {
				files = append(files, fmt.Sprintf("{namespace ok.n%d}\n/** */\n{template .t}\nhello {sp}\n{/template}\n", i))
				continue
			}
			c := w.seededCall(r, thorough)
			if c.Entry != "file" {
				c.Input = corpus.Wrap("{" + c.Input + "}")
			}
			if len(c.Input) > 3000 {
				c.Input = c.Input[:3000]
			}
			files = append(files, c.Input)
		}
		kind := "compile"
		if r.Intn(3) == 0 {
			kind = "compile-unnamed"
		}
		return pparse.Call{Entry: "compile", Files: files, Kind: kind}
	case x < 60:
		// a prefix of a corpus item
		s := w.item(r.Intn(len(w.corp.Files) + len(w.corp.Strings)))
		if len(s) > 2500 {
			a := r.Intn(len(s) - 2000)
			s = s[a : a+2000]
		}
		entry := "file"
		if r.Intn(3) == 0 {
			entry = "expr"
		}
		return pparse.Call{Entry: entry, Input: s[:r.Intn(len(s)+1)], Kind: "prefix"}
	default:
		c := w.seededCall(r, thorough)
		if len(c.Input) > 4000 {
			c.Input = c.Input[:4000]
		}
		return c
	}
}

// LingerLimit bounds the simulated steps the tasks started by a parse call may still take after
// the call has returned (on the pinned tree: the scanner finishes its last send, closes the
// channel and returns).
const LingerLimit = 500

// lastLinger is the largest number of steps any call of the last sequence left to its tasks.
var lastLinger int64

// runSeq executes the calls in one simulation and applies the C18 oracle after every call.
func runSeq(sc seqCase, replay bool) (*wk.Failure, *simrt.Result, []string, int) {
	ch, _ := pparse.ChooserFor(sc.Variant, sc.SchedSeed)
	if replay && sc.Decisions != nil {
		ch = &simrt.Replay{List: sc.Decisions}
	}
	var budget int64
	for _, c := range sc.Calls {
		budget += int64(StepsPerByte) * int64(c.Len()+64)
	}
	var leakAt = -1
	var leak simrt.LeakInfo
	var lingerAt = -1
	var idleAfter = -1 // index of the call whose tasks the harness is waiting for
	var lingerSteps, maxLinger int64
	var outcomes []string
	done := 0
	res := simrt.Run(simrt.Config{Budget: budget, Chooser: ch, NsPerStep: simrt.SpeedFor(sc.SchedSeed + uint64(sc.Variant))}, func() {
		known := map[int]bool{}
		for i, c := range sc.Calls {
			simrt.ExtendBudget(int64(StepsPerByte) * int64(c.Len()+64))
			out := pparse.Exec(c)
			switch {
			case out.Panic != "":
				outcomes = append(outcomes, "panic")
			case out.Err != "":
				outcomes = append(outcomes, "error")
			default:
				outcomes = append(outcomes, "ok")
			}
			done++
			// the call has returned: let every remaining task run until nothing can move
			stepsAtReturn := simrt.Steps()
			idleAfter = i
			leaks := simrt.Idle()
			idleAfter = -1
			if d := simrt.Steps() - stepsAtReturn; d > maxLinger {
				maxLinger = d
				if d > LingerLimit && lingerAt < 0 {
					lingerAt, lingerSteps = i, d
				}
			}
			for _, l := range leaks {
				if !known[l.Task] {
					known[l.Task] = true
					if leakAt < 0 {
						leakAt, leak = i, l
					}
				}
			}
			if leakAt >= 0 || lingerAt >= 0 {
				return
			}
		}
	})
	lastLinger = maxLinger
	if res.Budget && idleAfter >= 0 {
		// the budget ran out while the harness waited for the tasks of a call that HAD returned: they
		// never stopped working (a poller, a retry loop)
		c := sc.Calls[idleAfter]
		out := sc
		b, _ := json.Marshal(out)
		return &wk.Failure{Class: "lingering", Site: "a task started by the call kept working after the call had returned",
			Detail: fmt.Sprintf("after call %d (%s %q) returned, the tasks it had started were still running when the step budget ran out (at %s)", idleAfter, c.Entry, trunc(c.Input+strings.Join(c.Files, "|"), 120), SiteName(res.AbortSite)),
			Replay: b}, res, outcomes, done
	}
	if res.Budget || res.Deadlock {
		// the call itself did not return: that is C05's verdict, not a leak
		return nil, res, outcomes, done
	}
	if lingerAt >= 0 && leakAt < 0 {
		c := sc.Calls[lingerAt]
		out := sc
		if len(res.Decisions) <= 5000 {
			out.Decisions = res.Decisions
			if out.Decisions == nil {
				out.Decisions = []simrt.Decision{}
			}
		}
		b, _ := json.Marshal(out)
		return &wk.Failure{Class: "lingering", Site: "a task started by the call kept working after the call had returned",
			Detail: fmt.Sprintf("after call %d (%s %q, outcome %s) returned, the tasks it had started ran for another %d simulated steps before they exited (limit %d: finishing a send and closing the channel takes a few dozen): the scanner had not exited when the call returned",
				lingerAt, c.Entry, trunc(c.Input+strings.Join(c.Files, "|"), 120), outcomes[lingerAt], lingerSteps, LingerLimit),
			Replay: b}, res, outcomes, done
	}
	if leakAt < 0 && len(res.Leaks) > 0 {
		leakAt, leak = len(sc.Calls)-1, res.Leaks[0]
	}
	if leakAt >= 0 {
		c := sc.Calls[leakAt]
		site := fmt.Sprintf("%s in %s, started at %s", leak.BlockOp, SiteName(leak.BlockSite), SiteName(leak.SpawnSite))
		out := sc
		if len(res.Decisions) <= 5000 {
			out.Decisions = res.Decisions
			if out.Decisions == nil {
				out.Decisions = []simrt.Decision{}
			}
		}
		b, _ := json.Marshal(out)
		return &wk.Failure{Class: "leak", Site: site,
			Detail: fmt.Sprintf("after call %d (%s %q, outcome %s) returned, task %q is alive and blocked for ever: %s",
				leakAt, c.Entry, trunc(c.Input+strings.Join(c.Files, "|"), 120), outcomes[leakAt], leak.Name, site),
			Replay: b}, res, outcomes, done
	}
	return nil, res, outcomes, done
}

// C18 is the worker entry point for property C18.
func C18(c *wk.Ctx) {
	LoadSites(c.Sites)
	if c.Mode == "replay" {
		var sc seqCase
		readReplay(c, &sc)
		if sc.Native {
			u := wk.NewUnit(0)
			f, done := nativeLeakCheck(sc)
			u.Evals = int64(done)
			u.AddFail(f)
			c.Emit(u)
			return
		}
		f, res, _, done := runSeq(sc, true)
		u := wk.NewUnit(0)
		u.Evals = int64(done)
		u.Steps = res.Steps
		u.AddFail(f)
		c.Emit(u)
		return
	}
	w := newParseWork(c, 0, 0)
	units := w.exhUnits()
	nSeq := 400
	maxLen := 40
	if c.Tier == "thorough" {
		nSeq = 120000
		maxLen = 200
	}
	total := len(units) + nSeq
	if c.Mode == "plan" {
		c.Emit(map[string]interface{}{"ev": "plan", "units": total, "exhaustive_units": len(units)})
		return
	}
	for run := c.Start; run < c.Start+c.Count && run < total; run++ {
		c.Begin(run)
		u := wk.NewUnit(run)
		var sc seqCase
		sc.Variant = run
		sc.SchedSeed = c.UnitSeed(run, 1)
		if run < len(units) {
			// every prefix of every corpus item, in sequences
			for _, j := range units[run] {
				for k := j.from; k < j.to; k++ {
					sc.Calls = append(sc.Calls, w.prefixCall(j, k))
				}
			}
			u.Counters["exhaustive_prefix_units"]++
		} else {
			r := simrt.NewRNG(c.UnitSeed(run, 2))
			n := 1 + r.Intn(maxLen)
			for i := 0; i < n; i++ {
				sc.Calls = append(sc.Calls, w.seqCall(r, c.Tier == "thorough"))
			}
		}
		if c.Extra == "native" {
			f, done := nativeLeakCheck(sc)
			u.Evals += int64(done)
			u.Counters["native_sequences"]++
			u.AddFail(f)
			c.Emit(u)
			continue
		}
		// long exhaustive units are split into sequences of at most 200 calls
		var digest uint64
		for len(sc.Calls) > 0 {
			part := sc
			if len(part.Calls) > 200 {
				part.Calls = sc.Calls[:200]
			}
			sc.Calls = sc.Calls[len(part.Calls):]
			f, res, outcomes, done := runSeq(part, false)
			u.Evals += int64(done)
			u.Steps += res.Steps
			digest = digest*1099511628211 ^ res.TraceHash ^ uint64(res.Steps)<<1 ^ wk.FNV(strings.Join(outcomes, ","))
			u.Counters["sequences"]++
			u.MaxCounter("max_steps_left_to_tasks_after_return", lastLinger)
			u.Counters["tasks_spawned"] += int64(res.Tasks - 1)
			u.Counters["switches"] += res.Switches
			u.Counters["simulated_nanoseconds"] += res.SimNanos
			u.Counters["clock_reads"] += res.ClockReads
			u.Counters["timers_armed"] += res.TimersArmed
			u.Counters["timers_fired"] += res.TimersFired
			u.Counters["clock_jumps"] += res.ClockJumps
			if res.Budget || res.Deadlock || len(res.TaskPanics) > 0 || res.MainPanic != nil {
				u.Counters["sequences_cut_by_c05_condition"]++
			}
			for i, o := range outcomes {
				u.Counters["outcome_"+o]++
				u.Counters["entry_"+part.Calls[i].Entry]++
				u.Counters["kind_"+part.Calls[i].Kind]++
			}
			var h uint64
			for _, cl := range part.Calls {
				hh := wk.FNV(cl.Entry + "\x00" + cl.Input + strings.Join(cl.Files, "\x01"))
				u.Hash("input", hh)
				h = h*1099511628211 ^ hh
			}
			u.Hash("history", h)
			u.Hash("interleaving", res.TraceHash^h)
			if len(part.Calls) > 0 {
				u.Sample(1, map[string]interface{}{"calls": len(part.Calls), "first": part.Calls[0], "tasks": res.Tasks, "steps": res.Steps})
			}
			u.AddFail(f)
		}
		u.Observe("digest", fmt.Sprintf("%016x", digest))
		c.Emit(u)
	}
}
