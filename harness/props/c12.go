package props

import (
	"bytes"
	"encoding/json"
	"fmt"

	"github.com/robfig/soy/ast"
	"github.com/robfig/soy/soymsg"
	"verif/harness/internal/faults"
	"verif/harness/internal/gen"
	"verif/harness/internal/sut"
	"verif/harness/internal/wk"
	"verif/simrt"
)

// writeFault is one injected writer fault.
type writeFault struct {
	Mode string `json:"mode"` // sticky | transient | partial | fullcount | capacity
	K    int    `json:"k"`    // call index (1-based) or byte capacity
}

// c12Case is the replay case of C12.
type c12Case struct {
	Case       *gen.Case    `json:"bundle"`
	Entry      gen.Entry    `json:"entry"`
	Catalogue  int          `json:"catalogue"` // -1 none, else faults.BundleKind
	Obligatory []string     `json:"obligatory,omitempty"`
	Faults     []writeFault `json:"faults"`
	API        string       `json:"api,omitempty"`      // "" = Renderer.Execute with $ij and catalogue, "render" = Tofu.Render
	Shape      string       `json:"shape,omitempty"`    // optional interfaces of the writer: "" | flush-nil | flush-err | stringwriter
	ErrKind    int          `json:"err_kind,omitempty"` // which error value the writer fails with (faults.WriteErrors)
}

func collectTexts(n ast.Node, set map[string]bool) {
	if n == nil {
		return
	}
	switch x := n.(type) {
	case *ast.RawTextNode:
		set[string(x.Text)] = true
	case *ast.MsgHtmlTagNode:
		set[string(x.Text)] = true
	}
	if p, ok := n.(ast.ParentNode); ok {
		for _, c := range p.Children() {
			if c != nil {
				collectTexts(c, set)
			}
		}
	}
}

var entities = map[string]bool{"&#34;": true, "&#39;": true, "&amp;": true, "&lt;": true, "&gt;": true}

// classify labels each write call of the fault-free run.
func classify(out []byte, sizes []int, texts map[string]bool) []string {
	kinds := make([]string, len(sizes))
	pos := 0
	for i, n := range sizes {
		chunk := string(out[pos : pos+n])
		pos += n
		switch {
		case entities[chunk]:
			kinds[i] = "entity"
		case n == 0:
			kinds[i] = "empty"
		case texts[chunk]:
			kinds[i] = "rawtext"
		default:
			kinds[i] = "value"
		}
	}
	for i := range kinds {
		if kinds[i] == "value" || kinds[i] == "empty" {
			if (i > 0 && kinds[i-1] == "entity") || (i+1 < len(kinds) && kinds[i+1] == "entity") {
				kinds[i] = "escaper-chunk"
			}
		}
	}
	return kinds
}

func catalogue(cc *sut.Compiled, kind int) soymsg.Bundle {
	return faults.Catalogue(kind, cc.Msgs)
}

// c12Run executes one faulted render and applies the oracle.  ref is the fault-free run.
func c12Run(cc *sut.Compiled, cs *c12Case, f writeFault, ref *faults.Writer, refErr error, kinds []string) (*wk.Failure, *faults.Writer, string) {
	w := faults.NewWriter()
	w.ErrKind = cs.ErrKind
	switch f.Mode {
	case "sticky":
		w.FailCall, w.Sticky = f.K, true
	case "transient":
		w.FailCall = f.K
	case "partial":
		w.FailCall, w.Partial = f.K, true
	case "fullcount":
		w.FailCall, w.FullCount = f.K, true
	case "capacity":
		w.Capacity = f.K
	}
	e := cs.Entry
	err, esc := c12Render(cc, cs, w)
	kind := "none"
	if w.Failed > 0 && w.FirstFailCall-1 < len(kinds) {
		kind = kinds[w.FirstFailCall-1]
	}
	mk := func(class, detail string) *wk.Failure {
		c := *cs
		c.Faults = []writeFault{f}
		b, _ := json.Marshal(&c)
		return &wk.Failure{Class: class, Site: "write of kind " + kind + " (" + f.Mode + ")", Detail: detail, Replay: b}
	}
	if esc != nil {
		return mk("panic", "panic escaped Render with a failing writer: "+trunc(esc.Value, 200)+" at "+esc.Site), w, kind
	}
	if w.Failed > 0 {
		if err == nil {
			return mk("nil-error", fmt.Sprintf("template %s: writer call %d of %d (%s, fault %s k=%d) returned an error but Render returned nil; accepted %d of %d bytes",
				e.Template, w.FirstFailCall, len(ref.Sizes), kind, f.Mode, f.K, len(w.Accepted), len(ref.Accepted))), w, kind
		}
		upto := w.AcceptedBeforeFirstFail
		if !bytes.HasPrefix(ref.Accepted, w.Accepted[:upto]) {
			return mk("prefix", fmt.Sprintf("template %s: bytes accepted before the failing call %d are not a prefix of the fault-free output: %q vs %q",
				e.Template, w.FirstFailCall, trunc(string(w.Accepted[:upto]), 80), trunc(string(ref.Accepted), 80))), w, kind
		}
	} else {
		// no call failed and still the run differs from the fault-free run: rendering depends on what
		// was rendered before (an earlier faulted run left something behind).  That is C08's subject,
		// not a statement about failing writers.
		if !bytes.Equal(w.Accepted, ref.Accepted) || (err == nil) != (refErr == nil) {
			return mk("history", "a run in which no write failed differs from the fault-free run"), w, kind
		}
	}
	if err == nil && !bytes.Equal(w.Accepted, ref.Accepted) {
		return mk("nil-but-incomplete", fmt.Sprintf("template %s: Render returned nil although the writer accepted %d of %d bytes", e.Template, len(w.Accepted), len(ref.Accepted))), w, kind
	}
	return nil, w, kind
}

// c12Render renders the case's entry into w dressed in the case's writer shape, through the
// case's entry point.
func c12Render(cc *sut.Compiled, cs *c12Case, w *faults.Writer) (err error, esc *sut.Escape) {
	e := cs.Entry
	out := faults.Shaped(w, cs.Shape)
	if cs.API == "render" {
		defer func() {
			if r := recover(); r != nil {
				esc = &sut.Escape{Value: fmt.Sprint(r), Site: "Tofu.Render"}
			}
		}()
		return cc.Tofu.Render(out, e.Template, cs.Case.Data[e.Data].Map()), nil
	}
	return cc.Render(out, e.Template, cs.Case.Data[e.Data].Map(), cs.Case.IJ[e.IJ].Map(), catalogue(cc, cs.Catalogue))
}

// c12Isolated re-executes one fault with the reference and the faulted render each being the
// first render of a freshly compiled bundle, so that a history dependence of rendering (C08's
// subject) cannot masquerade as a C12 violation.
func c12Isolated(cs *c12Case, f writeFault) (*wk.Failure, error) {
	sut.SetObligatory(cs.Obligatory)
	cc1, err := sut.Compile(cs.Case)
	if err != nil {
		return nil, err
	}
	if cs.Entry.Data >= len(cs.Case.Data) || cs.Entry.IJ >= len(cs.Case.IJ) {
		return nil, fmt.Errorf("entry refers to a missing data set")
	}
	e := cs.Entry
	ref := faults.NewWriter()
	refErr, esc := c12Render(cc1, cs, ref)
	_ = e
	if esc != nil {
		return nil, fmt.Errorf("fault-free render panics (C06's subject)")
	}
	texts := map[string]bool{}
	for _, t := range cc1.Reg.Templates {
		collectTexts(t.Node, texts)
	}
	kinds := classify(ref.Accepted, ref.Sizes, texts)
	cc2, err := sut.Compile(cs.Case)
	if err != nil {
		return nil, err
	}
	fl, _, _ := c12Run(cc2, cs, f, ref, refErr, kinds)
	return fl, nil
}

func c12Opts() gen.Opts {
	o := gen.DefaultOpts()
	o.Directives = []string{"|vq"}
	return o
}

// C12 is the worker entry point for property C12.
func C12(c *wk.Ctx) {
	sut.InstallExtensions()
	if c.Mode == "replay" {
		var cs c12Case
		readReplay(c, &cs)
		u := wk.NewUnit(0)
		for _, f := range cs.Faults {
			fl, err := c12Isolated(&cs, f)
			if err != nil {
				u.AddFail(&wk.Failure{Class: "invalid-case", Detail: err.Error()})
				break
			}
			u.Evals++
			u.AddFail(fl)
		}
		c.Emit(u)
		return
	}
	units, perUnit := 600, 5
	if c.Tier == "thorough" {
		units, perUnit = 100000, 5
	}
	if c.Mode == "plan" {
		c.Emit(map[string]interface{}{"ev": "plan", "units": units, "cases_per_unit": perUnit})
		return
	}
	for run := c.Start; run < c.Start+c.Count && run < units; run++ {
		c.Begin(run)
		u := wk.NewUnit(run)
		r := simrt.NewRNG(c.UnitSeed(run, 7))
		for ci := 0; ci < perUnit; ci++ {
			seed := c.UnitSeed(run, uint64(100+ci))
			o12 := c12Opts()
			o12.Focus = gen.FocusFor(seed)
			gc := gen.Generate(seed, o12)
			cs := &c12Case{Case: gc, Catalogue: -1}
			if r.Intn(2) == 0 {
				cs.Catalogue = []int{0, 1, 2, faults.KindPO}[r.Intn(4)]
			}
			// swarm: the entry point (Renderer.Execute with $ij and catalogue, or Tofu.Render) and the
			// optional interfaces the writer has besides Write
			if r.Intn(3) == 0 {
				cs.API, cs.Catalogue = "render", -1
			}
			cs.Shape = []string{"", "", "flush-nil", "flush-err", "stringwriter", "bufferlike"}[r.Intn(6)]
			if r.Intn(2) == 0 {
				// the error value is part of the swarm: a closed pipe, a reset connection, a full disk, ...
				cs.ErrKind = 1 + r.Intn(len(faults.WriteErrors)-1)
				u.Counters["cases_with_a_system_error_value"]++
			}
			u.Counters["api_"+map[string]string{"": "execute", "render": "render"}[cs.API]]++
			u.Counters["writer_shape_"+map[string]string{"": "plain"}[cs.Shape]+cs.Shape]++
			if r.Intn(4) == 0 {
				cs.Obligatory = []string{"vbang"}
			}
			sut.SetObligatory(cs.Obligatory)
			cc, err := sut.Compile(gc)
			u.Counters["cases"]++
			if err != nil {
				u.Counters["generator_discards"]++
				continue
			}
			texts := map[string]bool{}
			for _, t := range cc.Reg.Templates {
				collectTexts(t.Node, texts)
			}
			for _, k := range gc.Kinds() {
				u.Counters["bundle_has_"+k]++
			}
			// entries: at most 4 per case, seeded choice
			entries := gc.Entries
			for len(entries) > 4 {
				i := r.Intn(len(entries))
				entries = append(entries[:i:i], entries[i+1:]...)
			}
			for _, e := range entries {
				cs.Entry = e
				ref := faults.NewWriter()
				refErr, esc := c12Render(cc, cs, ref)
				u.Evals++
				if esc != nil {
					u.Counters["fault_free_panics_left_to_C06"]++
					continue
				}
				if refErr != nil {
					u.Counters["self_failing_templates"]++
				}
				n := len(ref.Sizes)
				u.Counters["fault_free_write_calls"] += int64(n)
				kinds := classify(ref.Accepted, ref.Sizes, texts)
				if n >= 2 || len(ref.Accepted) >= 2 {
					// at least two fault points: write calls or byte capacities (a renderer that buffers its
					// output makes a single write call; the capacity enumeration still reaches every offset)
					u.Hash("case", wk.FNV(gc.Skeleton()+"\x00"+e.Template+fmt.Sprint(e.Data, cs.Catalogue)))
				}
				u.MaxCounter("max_write_calls_in_a_case", int64(n))
				u.MaxCounter("max_output_bytes_in_a_case", int64(len(ref.Accepted)))
				var fs []writeFault
				if n <= 600 {
					for k := 1; k <= n; k++ {
						fs = append(fs, writeFault{"sticky", k}, writeFault{"transient", k}, writeFault{"partial", k}, writeFault{"fullcount", k})
					}
				} else {
					// beyond the per-case bound the call indices are sampled (counted separately)
					u.Counters["cases_beyond_exhaustive_bound"]++
					for i := 0; i < 200; i++ {
						k := 1 + r.Intn(n)
						fs = append(fs, writeFault{"sticky", k}, writeFault{"transient", k}, writeFault{"partial", k}, writeFault{"fullcount", k})
					}
				}
				total := len(ref.Accepted)
				if total <= 1024 {
					for b := 0; b <= total; b++ {
						fs = append(fs, writeFault{"capacity", b})
					}
				} else {
					pos := 0
					for si, s := range ref.Sizes {
						if si > 300 {
							break
						}
						for _, b := range []int{pos - 1, pos, pos + 1} {
							if b >= 0 && b <= total {
								fs = append(fs, writeFault{"capacity", b})
							}
						}
						pos += s
					}
					for i := 0; i < 200; i++ {
						fs = append(fs, writeFault{"capacity", r.Intn(total + 1)})
					}
					fs = append(fs, writeFault{"capacity", total})
				}
				for _, f := range fs {
					fl, w, kind := c12Run(cc, cs, f, ref, refErr, kinds)
					u.Evals++
					if fl != nil && fl.Class == "history" {
						u.Counters["fault_free_rerun_differs_history_dependence_left_to_C08"]++
						fl = nil
					}
					if fl != nil {
						// confirm on freshly compiled bundles before reporting
						u.Counters["candidates_reexecuted_in_isolation"]++
						iso, err := c12Isolated(cs, f)
						switch {
						case err != nil:
							u.Trouble = "isolated re-execution failed: " + err.Error()
						case iso == nil && (fl.Class == "nil-error" || fl.Class == "panic"):
							// these two need no reference output: a failed write that no error reports, or a
							// panic, violates the statement on the n-th render of a bundle as on the first
							u.Counters["violations_that_need_the_renders_before_them"]++
							fl.Detail += " (only after the earlier renders of this bundle: the same fault on a freshly compiled bundle is reported correctly)"
							u.AddFail(fl)
						case iso == nil:
							u.Counters["candidate_not_confirmed_in_isolation_history_dependence_left_to_C08"]++
						case iso.Class == "history":
							u.Counters["fault_free_rerun_differs_history_dependence_left_to_C08"]++
						default:
							u.AddFail(iso)
						}
					}
					if w.Failed > 0 {
						u.Counters["fault_fired_"+f.Mode]++
						u.Counters["fault_landed_on_"+kind]++
						if cs.Catalogue >= 0 {
							u.Counters["fault_fired_with_catalogue"]++
						}
						if cs.Catalogue == faults.KindPO {
							u.Counters["fault_fired_with_pomsg_bundle"]++
						}
					} else {
						u.Counters["fault_not_fired_"+f.Mode]++
					}
				}
				if len(u.Samples) < 1 {
					u.Sample(1, map[string]interface{}{"template": e.Template, "source": trunc(gc.Files[0].Source(), 400), "write_calls": n, "output": trunc(string(ref.Accepted), 160),
						"faults_enumerated": len(fs), "catalogue": cs.Catalogue})
				}
			}
		}
		c.Emit(u)
	}
}
