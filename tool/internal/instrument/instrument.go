// Package instrument rewrites a scratch copy of robfig/soy so that every source of
// nondeterminism the properties depend on goes through verif/simrt (DESIGN.md 3.2, appendix A).
//
// It never re-prints syntax trees: all edits are insertions or token replacements against the
// original source text, placed on the line of the statement they precede, so line numbers in
// the copy equal those of /repo.
package instrument

import (
	"encoding/json"
	"fmt"
	"go/ast"
	"go/token"
	"go/types"
	"os"
	"path/filepath"
	"sort"
	"strings"

	"golang.org/x/tools/go/packages"
)

const alias = "verifsim"

// costed maps standard-library functions whose running time is linear in an argument to their
// cost-charging wrappers in verif/simrt (same signature, same result).
var costed = map[string]string{
	"strings.Index": "StringsIndex", "strings.Contains": "StringsContains", "strings.LastIndex": "StringsLastIndex", "strings.Count": "StringsCount",
	"strings.IndexByte": "StringsIndexByte", "strings.IndexRune": "StringsIndexRune", "strings.IndexAny": "StringsIndexAny",
	"strings.Replace": "StringsReplace", "strings.ReplaceAll": "StringsReplaceAll", "strings.Split": "StringsSplit", "strings.ToUpper": "StringsToUpper",
	"strings.ToLower": "StringsToLower", "strings.TrimSpace": "StringsTrimSpace", "strings.Repeat": "StringsRepeat", "strings.Join": "StringsJoin", "strings.Fields": "StringsFields",
	"bytes.Index": "BytesIndex", "bytes.Contains": "BytesContains", "bytes.Count": "BytesCount", "bytes.IndexByte": "BytesIndexByte", "bytes.Replace": "BytesReplace", "bytes.TrimSpace": "BytesTrimSpace",
}

// clocked lists the functions of package time that read the clock or arm a timer: inside a
// simulation they are served by the simulated clock (verif/simrt/clock.go).
var clocked = map[string]string{
	"time.Now": "Now", "time.Since": "Since", "time.Until": "Until", "time.Sleep": "Sleep", "time.After": "After", "time.NewTimer": "NewTimer", "time.AfterFunc": "AfterFunc",
	"time.NewTicker": "NewTicker", "time.Tick": "Tick",
}

// unmodelledFuncs are sources of time or blocking the simulator has no model for: a tree that
// uses one cannot be simulated faithfully and the check says so (exit 2) instead of guessing.
var unmodelledFuncs = map[string]bool{
	"context.WithTimeout": true, "context.WithDeadline": true, "context.WithTimeoutCause": true, "context.WithDeadlineCause": true,
	"signal.Notify": true,
}

// regexpScans lists the regexp methods whose first argument is scanned.
var regexpScans = map[string]bool{
	"Match": true, "MatchString": true, "Find": true, "FindString": true, "FindIndex": true, "FindStringIndex": true, "FindSubmatch": true, "FindStringSubmatch": true,
	"FindSubmatchIndex": true, "FindStringSubmatchIndex": true, "FindAll": true, "FindAllString": true, "FindAllIndex": true, "FindAllStringIndex": true,
	"FindAllSubmatch": true, "FindAllStringSubmatch": true, "FindAllSubmatchIndex": true, "FindAllStringSubmatchIndex": true,
	"ReplaceAll": true, "ReplaceAllString": true, "ReplaceAllLiteral": true, "ReplaceAllLiteralString": true, "ReplaceAllFunc": true, "ReplaceAllStringFunc": true, "Split": true,
}

// Site describes one instrumentation point.
type Site struct {
	ID   int    `json:"id"`
	File string `json:"file"` // relative to the module root
	Line int    `json:"line"`
	Col  int    `json:"col"`
	Kind string `json:"kind"`
	Func string `json:"func,omitempty"`
}

// Report is the result of instrumenting a tree.
type Report struct {
	Sites      []Site         `json:"sites"`
	Counts     map[string]int `json:"counts"`
	Skipped    []string       `json:"skipped_functions"`  // functions containing select
	Unmodelled []string       `json:"unmodelled_sources"` // order / blocking sources the rewriter does not model
	Files      int            `json:"files"`
	Packages   []string       `json:"packages"`
}

type edit struct {
	start, end int // byte offsets in the file
	text       string
	order      int // tie-break among insertions at the same offset
	seq        int
}

type fileCtx struct {
	path  string
	rel   string
	src   []byte
	file  *ast.File
	edits []edit
	tf    *token.File
	keep  map[string]bool
}

type rewriter struct {
	fset   *token.FileSet
	pkg    *packages.Package
	info   *types.Info
	rep    *Report
	root   string
	nextID *int
	f      *fileCtx
	fn     string
	seq    int
}

// Options selects what to instrument.
type Options struct {
	Dir            string   // module root of the scratch copy
	ExcludeSuffix  []string // package import path suffixes left untouched
	StatementYield bool     // yield before every statement (else function entries and loop heads only)
}

// Run instruments the module at opts.Dir in place.
func Run(opts Options) (*Report, error) {
	cfg := &packages.Config{
		Mode: packages.NeedName | packages.NeedFiles | packages.NeedCompiledGoFiles | packages.NeedSyntax |
			packages.NeedTypes | packages.NeedTypesInfo | packages.NeedImports | packages.NeedTypesSizes,
		Dir:   opts.Dir,
		Tests: false,
		Env:   append(os.Environ(), "GOFLAGS=-mod=mod", "GOPROXY=off", "GOSUMDB=off", "GOTOOLCHAIN=local"),
	}
	pkgs, err := packages.Load(cfg, "./...")
	if err != nil {
		return nil, fmt.Errorf("load: %w", err)
	}
	rep := &Report{Counts: map[string]int{}}
	nextID := 1
	sort.Slice(pkgs, func(i, j int) bool { return pkgs[i].PkgPath < pkgs[j].PkgPath })
	for _, p := range pkgs {
		if len(p.Errors) > 0 {
			return nil, fmt.Errorf("package %s does not type-check: %v", p.PkgPath, p.Errors[0])
		}
		skip := false
		for _, suf := range opts.ExcludeSuffix {
			if strings.HasSuffix(p.PkgPath, suf) {
				skip = true
			}
		}
		if skip {
			continue
		}
		rep.Packages = append(rep.Packages, p.PkgPath)
		for i, file := range p.Syntax {
			path := p.CompiledGoFiles[i]
			if !strings.HasPrefix(path, opts.Dir) || strings.HasSuffix(path, "_test.go") {
				continue
			}
			src, err := os.ReadFile(path)
			if err != nil {
				return nil, err
			}
			rel, _ := filepath.Rel(opts.Dir, path)
			fc := &fileCtx{path: path, rel: rel, src: src, file: file, tf: p.Fset.File(file.Pos())}
			rw := &rewriter{fset: p.Fset, pkg: p, info: p.TypesInfo, rep: rep, root: opts.Dir, nextID: &nextID, f: fc}
			if err := rw.file(opts); err != nil {
				return nil, fmt.Errorf("%s: %w", rel, err)
			}
			if len(fc.edits) == 0 {
				continue
			}
			out, err := apply(fc)
			if err != nil {
				return nil, fmt.Errorf("%s: %w", rel, err)
			}
			if err := os.WriteFile(path, out, 0o644); err != nil {
				return nil, err
			}
			rep.Files++
		}
	}
	return rep, nil
}

// WriteSites stores the report as JSON.
func WriteSites(rep *Report, path string) error {
	b, err := json.MarshalIndent(rep, "", " ")
	if err != nil {
		return err
	}
	return os.WriteFile(path, b, 0o644)
}

func (rw *rewriter) off(p token.Pos) int { return rw.f.tf.Offset(p) }

func (rw *rewriter) site(p token.Pos, kind string) int {
	id := *rw.nextID
	*rw.nextID = id + 1
	pos := rw.fset.Position(p)
	rw.rep.Sites = append(rw.rep.Sites, Site{ID: id, File: rw.f.rel, Line: pos.Line, Col: pos.Column, Kind: kind, Func: rw.fn})
	rw.rep.Counts[kind]++
	return id
}

func (rw *rewriter) insert(at token.Pos, text string, order int) {
	rw.seq++
	o := rw.off(at)
	rw.f.edits = append(rw.f.edits, edit{start: o, end: o, text: text, order: order, seq: rw.seq})
}

func (rw *rewriter) replace(from, to token.Pos, text string) {
	rw.seq++
	rw.f.edits = append(rw.f.edits, edit{start: rw.off(from), end: rw.off(to), text: text, seq: rw.seq})
}

func (rw *rewriter) text(from, to token.Pos) string {
	return string(rw.f.src[rw.off(from):rw.off(to)])
}

func apply(fc *fileCtx) ([]byte, error) {
	es := fc.edits
	sort.SliceStable(es, func(i, j int) bool {
		a, b := es[i], es[j]
		if a.start != b.start {
			return a.start < b.start
		}
		ai, bi := a.end == a.start, b.end == b.start
		if ai != bi {
			return ai // insertions before replacements that start at the same offset
		}
		if a.order != b.order {
			return a.order < b.order
		}
		return a.seq < b.seq
	})
	var out []byte
	pos := 0
	for _, e := range es {
		if e.start < pos {
			return nil, fmt.Errorf("overlapping edits at offset %d (%q)", e.start, e.text)
		}
		out = append(out, fc.src[pos:e.start]...)
		out = append(out, e.text...)
		pos = e.end
	}
	out = append(out, fc.src[pos:]...)
	return out, nil
}

func containsSelect(n ast.Node) bool {
	found := false
	ast.Inspect(n, func(x ast.Node) bool {
		if _, ok := x.(*ast.SelectStmt); ok {
			found = true
		}
		return !found
	})
	return found
}

func (rw *rewriter) file(opts Options) error {
	before := len(rw.f.edits)
	var err error
	for _, d := range rw.file0().Decls {
		fd, ok := d.(*ast.FuncDecl)
		if !ok {
			// package-level var initialisers may contain function literals
			rw.fn = "(init)"
			if e := rw.walk(d, 0, opts); e != nil && err == nil {
				err = e
			}
			continue
		}
		if fd.Body == nil {
			continue
		}
		name := fd.Name.Name
		if fd.Recv != nil && len(fd.Recv.List) > 0 {
			name = types.ExprString(fd.Recv.List[0].Type) + "." + name
		}
		rw.fn = name
		if fd.Doc != nil {
			for _, c := range fd.Doc.List {
				if strings.HasPrefix(c.Text, "//go:") {
					rw.rep.Unmodelled = append(rw.rep.Unmodelled, fmt.Sprintf("%s: %s has compiler directive %s", rw.f.rel, name, c.Text))
				}
			}
		}
		id := rw.site(fd.Body.Lbrace, "func")
		rw.insert(fd.Body.Lbrace+1, fmt.Sprintf(" %s.Yield(%d);", alias, id), 0)
		if e := rw.block(fd.Body.List, true, 1, opts); e != nil && err == nil {
			err = e
		}
	}
	if err != nil {
		return err
	}
	if len(rw.f.keep) > 0 {
		var ks []string
		for k := range rw.f.keep {
			ks = append(ks, k)
		}
		sort.Strings(ks)
		txt := "\n"
		for _, k := range ks {
			txt += "var _ = " + k + "\n"
		}
		rw.insert(rw.file0().End(), txt, 0)
	}
	if len(rw.f.edits) > before {
		// import on the package clause line keeps line numbers intact
		rw.insert(rw.file0().Name.End(), fmt.Sprintf("; import %s \"verif/simrt\"", alias), 0)
	}
	return nil
}

func (rw *rewriter) file0() *ast.File { return rw.f.file }

// block handles a statement list.  skipFirst: the enclosing brace already carries a yield.
func (rw *rewriter) block(list []ast.Stmt, skipFirst bool, depth int, opts Options) error {
	for i, st := range list {
		if opts.StatementYield && !(skipFirst && i == 0) {
			switch st.(type) {
			case *ast.EmptyStmt:
			default:
				id := rw.site(st.Pos(), "stmt")
				rw.insert(st.Pos(), fmt.Sprintf("%s.Yield(%d); ", alias, id), -1000000)
			}
		}
		if err := rw.walk(st, depth, opts); err != nil {
			return err
		}
	}
	return nil
}

func isMap(t types.Type) bool {
	if t == nil {
		return false
	}
	_, ok := t.Underlying().(*types.Map)
	return ok
}

func isChan(t types.Type) bool {
	if t == nil {
		return false
	}
	_, ok := t.Underlying().(*types.Chan)
	return ok
}

func isBlank(e ast.Expr) bool {
	id, ok := e.(*ast.Ident)
	return ok && id.Name == "_"
}

// syncMethod returns ("Mutex"|"RWMutex"|"Once"|"WaitGroup"|"Cond"|"Map", method) if call is a
// method call on a type from package sync.
func (rw *rewriter) syncMethod(call *ast.CallExpr) (typ, method string, sel *ast.SelectorExpr, s *types.Selection) {
	se, ok := call.Fun.(*ast.SelectorExpr)
	if !ok {
		return
	}
	selection := rw.info.Selections[se]
	if selection == nil || selection.Kind() != types.MethodVal {
		return
	}
	fn, ok := selection.Obj().(*types.Func)
	if !ok || fn.Pkg() == nil {
		return
	}
	recv := fn.Type().(*types.Signature).Recv()
	if recv == nil {
		return
	}
	rt := recv.Type()
	if p, ok := rt.(*types.Pointer); ok {
		rt = p.Elem()
	}
	named, ok := rt.(*types.Named)
	if !ok || named.Obj().Pkg() == nil {
		return
	}
	switch named.Obj().Pkg().Path() {
	case "sync":
		return named.Obj().Name(), fn.Name(), se, selection
	case "reflect":
		if named.Obj().Name() == "Value" {
			return "reflect.Value", fn.Name(), se, selection
		}
	case "time":
		if named.Obj().Name() == "Timer" || named.Obj().Name() == "Ticker" {
			return "time." + named.Obj().Name(), fn.Name(), se, selection
		}
	}
	return
}

// fieldPath returns the text to append to the receiver expression to reach the embedded field
// that owns the promoted method (e.g. ".Mutex"), and whether the result is already a pointer.
func fieldPath(s *types.Selection) (string, bool) {
	t := s.Recv()
	idx := s.Index()
	path := ""
	ptr := false
	for _, i := range idx[:len(idx)-1] {
		if p, ok := t.Underlying().(*types.Pointer); ok {
			t = p.Elem()
		}
		st, ok := t.Underlying().(*types.Struct)
		if !ok {
			return "", false
		}
		f := st.Field(i)
		path += "." + f.Name()
		t = f.Type()
	}
	if _, ok := t.Underlying().(*types.Pointer); ok {
		ptr = true
	}
	if len(idx) == 1 {
		if _, ok := s.Recv().Underlying().(*types.Pointer); ok {
			ptr = true
		}
	}
	return path, ptr
}

func (rw *rewriter) walk(n ast.Node, depth int, opts Options) error {
	var err error
	fail := func(p token.Pos, format string, a ...interface{}) {
		if err == nil {
			err = fmt.Errorf("%s: %s", rw.fset.Position(p), fmt.Sprintf(format, a...))
		}
	}
	var visit func(n ast.Node, depth int)
	visitList := func(list []ast.Stmt, skipFirst bool, depth int) {
		if e := rw.block(list, skipFirst, depth, opts); e != nil && err == nil {
			err = e
		}
	}
	visit = func(n ast.Node, depth int) {
		if n == nil || err != nil {
			return
		}
		switch x := n.(type) {
		case *ast.FuncLit:
			id := rw.site(x.Body.Lbrace, "func")
			rw.insert(x.Body.Lbrace+1, fmt.Sprintf(" %s.Yield(%d);", alias, id), 0)
			visitList(x.Body.List, true, depth+1)
			return
		case *ast.BlockStmt:
			visitList(x.List, false, depth+1)
			return
		case *ast.CaseClause:
			for _, e := range x.List {
				visit(e, depth+1)
			}
			visitList(x.Body, false, depth+1)
			return
		case *ast.CommClause:
			fail(x.Pos(), "communication clause outside a select statement")
			return
		case *ast.LabeledStmt:
			switch x.Stmt.(type) {
			case *ast.RangeStmt:
				rs := x.Stmt.(*ast.RangeStmt)
				if t := rw.info.TypeOf(rs.X); isMap(t) || isChan(t) {
					fail(x.Pos(), "labelled range over a map or channel is not supported by the rewriter")
					return
				}
			}
			visit(x.Stmt, depth+1)
			return
		case *ast.ForStmt:
			visit(x.Init, depth+1)
			visit(x.Cond, depth+1)
			visit(x.Post, depth+1)
			id := rw.site(x.Body.Lbrace, "loop")
			rw.insert(x.Body.Lbrace+1, fmt.Sprintf(" %s.Yield(%d);", alias, id), 0)
			visitList(x.Body.List, true, depth+1)
			return
		case *ast.RangeStmt:
			t := rw.info.TypeOf(x.X)
			switch {
			case isMap(t):
				rw.rangeMap(x, depth)
			case isChan(t):
				rw.rangeChan(x, depth)
			default:
				id := rw.site(x.Body.Lbrace, "loop")
				rw.insert(x.Body.Lbrace+1, fmt.Sprintf(" %s.Yield(%d);", alias, id), 0)
			}
			visit(x.X, depth+1)
			visitList(x.Body.List, true, depth+1)
			return
		case *ast.GoStmt:
			rw.goStmt(x, depth, fail)
			visit(x.Call.Fun, depth+1)
			for _, a := range x.Call.Args {
				visit(a, depth+1)
			}
			return
		case *ast.SendStmt:
			id := rw.site(x.Pos(), "send")
			rw.insert(x.Chan.Pos(), alias+".Send(", depth)
			rw.replace(x.Arrow, x.Arrow+2, ", ")
			rw.insert(x.Value.End(), fmt.Sprintf(", %d)", id), -depth)
			visit(x.Chan, depth+1)
			visit(x.Value, depth+1)
			return
		case *ast.AssignStmt:
			if len(x.Lhs) == 2 && len(x.Rhs) == 1 {
				if u, ok := ast.Unparen(x.Rhs[0]).(*ast.UnaryExpr); ok && u.Op == token.ARROW {
					rw.recv(u, "Recv2", depth)
					visit(u.X, depth+1)
					for _, l := range x.Lhs {
						visit(l, depth+1)
					}
					return
				}
			}
		case *ast.ValueSpec:
			if len(x.Names) == 2 && len(x.Values) == 1 {
				if u, ok := ast.Unparen(x.Values[0]).(*ast.UnaryExpr); ok && u.Op == token.ARROW {
					rw.recv(u, "Recv2", depth)
					visit(u.X, depth+1)
					return
				}
			}
		case *ast.UnaryExpr:
			if x.Op == token.ARROW {
				rw.recv(x, "Recv", depth)
				visit(x.X, depth+1)
				return
			}
		case *ast.CallExpr:
			if id, ok := x.Fun.(*ast.Ident); ok && id.Name == "close" && len(x.Args) == 1 {
				if _, isBuiltin := rw.info.Uses[id].(*types.Builtin); isBuiltin {
					sid := rw.site(x.Pos(), "close")
					rw.replace(id.Pos(), id.End(), alias+".Close")
					rw.insert(x.Rparen, fmt.Sprintf(", %d", sid), -depth)
					visit(x.Args[0], depth+1)
					return
				}
			}
			if se, ok := x.Fun.(*ast.SelectorExpr); ok {
				if pk, ok := se.X.(*ast.Ident); ok {
					if pn, ok := rw.info.Uses[pk].(*types.PkgName); ok {
						if repl := clocked[pn.Imported().Path()+"."+se.Sel.Name]; repl != "" {
							rw.site(x.Pos(), "clock")
							rw.replace(se.Pos(), se.End(), alias+"."+repl)
							if rw.f.keep == nil {
								rw.f.keep = map[string]bool{}
							}
							rw.f.keep[pk.Name+"."+se.Sel.Name] = true // keeps the import used
						}
						if unmodelledFuncs[pn.Imported().Name()+"."+se.Sel.Name] {
							rw.rep.Unmodelled = append(rw.rep.Unmodelled, fmt.Sprintf("%s:%d: %s.%s", rw.f.rel, rw.fset.Position(x.Pos()).Line, pn.Imported().Name(), se.Sel.Name))
						}
						if repl := costed[pn.Imported().Path()+"."+se.Sel.Name]; repl != "" {
							rw.site(x.Pos(), "stdcost")
							rw.replace(se.Pos(), se.End(), alias+"."+repl)
							if rw.f.keep == nil {
								rw.f.keep = map[string]bool{}
							}
							rw.f.keep[pk.Name+"."+se.Sel.Name] = true // keeps the import used
						}
					}
				}
				if sel := rw.info.Selections[se]; sel != nil && sel.Kind() == types.MethodVal && len(x.Args) >= 1 {
					if fn, ok := sel.Obj().(*types.Func); ok && fn.Pkg() != nil && fn.Pkg().Path() == "regexp" && regexpScans[fn.Name()] {
						arg := x.Args[0]
						if t := rw.info.TypeOf(arg); t != nil {
							wrap := ""
							switch u := t.Underlying().(type) {
							case *types.Basic:
								if u.Kind() == types.String || u.Kind() == types.UntypedString {
									wrap = "S"
								}
							case *types.Slice:
								if b, ok := u.Elem().Underlying().(*types.Basic); ok && b.Kind() == types.Byte {
									wrap = "B"
								}
							}
							if wrap != "" {
								rw.site(x.Pos(), "stdcost")
								rw.insert(arg.Pos(), alias+"."+wrap+"(", depth+1)
								rw.insert(arg.End(), ")", -(depth + 1))
							}
						}
					}
				}
			}
			if typ, method, se, selection := rw.syncMethod(x); typ != "" {
				switch {
				case (typ == "Mutex" || typ == "RWMutex") && (method == "Lock" || method == "RLock" || method == "Unlock" || method == "RUnlock") && len(x.Args) == 0:
					sid := rw.site(x.Pos(), "lock")
					path, ptr := fieldPath(selection)
					amp := "&"
					if ptr {
						amp = ""
					}
					rw.insert(se.X.Pos(), fmt.Sprintf("%s.%s(%s", alias, method, amp), depth)
					rw.replace(se.X.End(), x.Rparen+1, fmt.Sprintf("%s, %d)", path, sid))
					visit(se.X, depth+1)
					return
				case typ == "WaitGroup" && (method == "Wait" && len(x.Args) == 0 || method == "Done" && len(x.Args) == 0 || method == "Add" && len(x.Args) == 1):
					sid := rw.site(x.Pos(), "waitgroup")
					path, ptr := fieldPath(selection)
					amp := "&"
					if ptr {
						amp = ""
					}
					rw.insert(se.X.Pos(), fmt.Sprintf("%s.Wg%s(%s", alias, method, amp), depth)
					if method == "Add" {
						rw.replace(se.X.End(), x.Lparen+1, path+", ")
						rw.insert(x.Rparen, fmt.Sprintf(", %d", sid), -depth)
						visit(x.Args[0], depth+1)
					} else {
						rw.replace(se.X.End(), x.Rparen+1, fmt.Sprintf("%s, %d)", path, sid))
					}
					visit(se.X, depth+1)
					return
				case typ == "Pool" && (method == "Get" && len(x.Args) == 0 || method == "Put" && len(x.Args) == 1):
					sid := rw.site(x.Pos(), "pool")
					path, ptr := fieldPath(selection)
					amp := "&"
					if ptr {
						amp = ""
					}
					rw.insert(se.X.Pos(), fmt.Sprintf("%s.Pool%s(%s", alias, method, amp), depth)
					if method == "Get" {
						rw.replace(se.X.End(), x.Rparen+1, fmt.Sprintf("%s, %d)", path, sid))
					} else {
						rw.replace(se.X.End(), x.Lparen+1, path+", ")
						rw.insert(x.Rparen, fmt.Sprintf(", %d", sid), -depth)
						visit(x.Args[0], depth+1)
					}
					visit(se.X, depth+1)
					return
				case typ == "Once" && method == "Do" && len(x.Args) == 1:
					rw.site(x.Pos(), "once")
					path, ptr := fieldPath(selection)
					amp := "&"
					if ptr {
						amp = ""
					}
					rw.insert(se.X.Pos(), fmt.Sprintf("%s.OnceDo(%s", alias, amp), depth)
					rw.replace(se.X.End(), x.Lparen+1, path+", ")
					visit(se.X, depth+1)
					visit(x.Args[0], depth+1)
					return
				case typ == "Cond" && (method == "Wait" || method == "Signal" || method == "Broadcast") && len(x.Args) == 0:
					rw.site(x.Pos(), "cond")
					path, ptr := fieldPath(selection)
					amp := "&"
					if ptr {
						amp = ""
					}
					rw.insert(se.X.Pos(), fmt.Sprintf("%s.Cond%s(%s", alias, method, amp), depth)
					rw.replace(se.X.End(), x.Rparen+1, path+")")
					visit(se.X, depth+1)
					return
				case typ == "Map" && method == "Range" && len(x.Args) == 1:
					sid := rw.site(x.Pos(), "syncmaprange")
					path, ptr := fieldPath(selection)
					amp := "&"
					if ptr {
						amp = ""
					}
					rw.insert(se.X.Pos(), fmt.Sprintf("%s.SyncMapRange(%s", alias, amp), depth)
					rw.replace(se.X.End(), x.Lparen+1, path+", ")
					rw.insert(x.Rparen, fmt.Sprintf(", %d", sid), -depth)
					visit(se.X, depth+1)
					visit(x.Args[0], depth+1)
					return
				case (typ == "time.Timer" || typ == "time.Ticker") && (method == "Stop" && len(x.Args) == 0 || method == "Reset" && len(x.Args) == 1):
					rw.site(x.Pos(), "clock")
					path, ptr := fieldPath(selection)
					amp := "&"
					if ptr {
						amp = ""
					}
					rw.insert(se.X.Pos(), fmt.Sprintf("%s.%s%s(%s", alias, strings.TrimPrefix(typ, "time."), method, amp), depth)
					if method == "Stop" {
						rw.replace(se.X.End(), x.Rparen+1, path+")")
					} else {
						rw.replace(se.X.End(), x.Lparen+1, path+", ")
						visit(x.Args[0], depth+1)
					}
					visit(se.X, depth+1)
					return
				case typ == "reflect.Value" && method == "MapKeys":
					sid := rw.site(x.Pos(), "reflectkeys")
					rw.insert(x.Pos(), alias+".ReflectKeys(", depth)
					rw.insert(x.End(), fmt.Sprintf(", %d)", sid), -depth)
				case typ == "reflect.Value" && method == "MapRange":
					rw.rep.Unmodelled = append(rw.rep.Unmodelled, fmt.Sprintf("%s:%d: %s.%s", rw.f.rel, rw.fset.Position(x.Pos()).Line, typ, method))
				}
			}
		case *ast.SelectStmt:
			if e := rw.selectStmt(x, depth); e != nil {
				fail(x.Pos(), "%v", e)
				return
			}
			for _, cl := range x.Body.List {
				visitList(cl.(*ast.CommClause).Body, false, depth+1)
			}
			return
		}
		// generic descent
		switch x := n.(type) {
		case *ast.IfStmt:
			visit(x.Init, depth+1)
			visit(x.Cond, depth+1)
			visit(x.Body, depth+1)
			visit(x.Else, depth+1)
		case *ast.SwitchStmt:
			visit(x.Init, depth+1)
			visit(x.Tag, depth+1)
			for _, c := range x.Body.List {
				visit(c, depth+1)
			}
		case *ast.TypeSwitchStmt:
			visit(x.Init, depth+1)
			visit(x.Assign, depth+1)
			for _, c := range x.Body.List {
				visit(c, depth+1)
			}
		default:
			children(n, func(c ast.Node) { visit(c, depth+1) })
		}
	}
	visit(n, depth)
	return err
}

// children calls f for every direct child node of n.
func children(n ast.Node, f func(ast.Node)) {
	first := true
	ast.Inspect(n, func(c ast.Node) bool {
		if c == nil {
			return false
		}
		if first {
			first = false
			return true
		}
		f(c)
		return false
	})
}

func (rw *rewriter) recv(u *ast.UnaryExpr, fn string, depth int) {
	id := rw.site(u.Pos(), "recv")
	rw.replace(u.OpPos, u.OpPos+2, fmt.Sprintf("%s.%s(", alias, fn))
	rw.insert(u.X.End(), fmt.Sprintf(", %d)", id), -depth)
}

func (rw *rewriter) goStmt(g *ast.GoStmt, depth int, fail func(token.Pos, string, ...interface{})) {
	id := rw.site(g.Pos(), "go")
	call := g.Call
	n := id
	fname := fmt.Sprintf("f__%d", n)
	var argNames []string
	type hoist struct {
		arg  ast.Expr
		name string
	}
	var hoists []hoist
	for i, a := range call.Args {
		if tv, ok := rw.info.Types[a]; ok && tv.Value != nil {
			argNames = append(argNames, rw.text(a.Pos(), a.End()))
			continue
		}
		name := fmt.Sprintf("a__%d_%d", n, i)
		argNames = append(argNames, name)
		hoists = append(hoists, hoist{a, name})
	}
	ell := ""
	if call.Ellipsis.IsValid() {
		ell = "..."
	}
	callText := fmt.Sprintf("; %s.Go(%d, func() { %s(%s%s) }) }", alias, id, fname, strings.Join(argNames, ", "), ell)
	// `go` keyword -> `{ f__N := `
	rw.replace(g.Go, call.Fun.Pos(), fmt.Sprintf("{ %s := ", fname))
	if len(hoists) == 0 {
		rw.replace(call.Lparen, call.Rparen+1, callText)
		return
	}
	if len(hoists) != len(call.Args) {
		fail(g.Pos(), "go statement mixing constant and non-constant arguments is not supported")
		return
	}
	rw.replace(call.Lparen, call.Args[0].Pos(), fmt.Sprintf("; %s := ", hoists[0].name))
	for i := 1; i < len(call.Args); i++ {
		rw.replace(call.Args[i-1].End(), call.Args[i].Pos(), fmt.Sprintf("; %s := ", hoists[i].name))
	}
	rw.replace(call.Args[len(call.Args)-1].End(), call.Rparen+1, callText)
}

func (rw *rewriter) rangeMap(x *ast.RangeStmt, depth int) {
	id := rw.site(x.Pos(), "maprange")
	yid := rw.site(x.Body.Lbrace, "loop")
	m := fmt.Sprintf("m__%d", id)
	ok := fmt.Sprintf("ok__%d", id)
	kk := fmt.Sprintf("k__%d", id)
	hasKey := x.Key != nil && !isBlank(x.Key)
	hasVal := x.Value != nil && !isBlank(x.Value)
	var head string
	yield := fmt.Sprintf(" %s.Yield(%d);", alias, yid)
	keys := fmt.Sprintf("%s.MapKeys(%s, %d)", alias, m, id)
	switch {
	case x.Tok == token.DEFINE || x.Tok == token.ILLEGAL:
		keyName := kk
		if hasKey {
			keyName = rw.text(x.Key.Pos(), x.Key.End())
		}
		switch {
		case !hasKey && !hasVal:
			head = fmt.Sprintf("; for range %s {%s", keys, yield)
		case hasVal:
			// the value variable is declared once, before the loop: the module's Go version (before
			// 1.22) gives a range loop ONE variable per name, and code that stores &v or captures v in a
			// closure behaves accordingly
			val := rw.text(x.Value.Pos(), x.Value.End())
			head = fmt.Sprintf("; %s := %s.ZeroVal(%s); _ = %s; for _, %s := range %s { var %s bool; %s, %s = %s[%s]; if !%s { continue };%s",
				val, alias, m, val, keyName, keys, ok, val, ok, m, keyName, ok, yield)
		default:
			head = fmt.Sprintf("; for _, %s := range %s { if _, %s := %s[%s]; !%s { continue };%s",
				keyName, keys, ok, m, keyName, ok, yield)
		}
	default: // assignment form
		head = fmt.Sprintf("; for _, %s := range %s { var %s bool;", kk, keys, ok)
		if hasKey {
			head += fmt.Sprintf(" %s = %s;", rw.text(x.Key.Pos(), x.Key.End()), kk)
		}
		if hasVal {
			head += fmt.Sprintf(" %s, %s = %s[%s];", rw.text(x.Value.Pos(), x.Value.End()), ok, m, kk)
		} else {
			head += fmt.Sprintf(" _, %s = %s[%s];", ok, m, kk)
		}
		head += fmt.Sprintf(" if !%s { continue };%s", ok, yield)
	}
	rw.replace(x.For, x.X.Pos(), fmt.Sprintf("{ %s := ", m))
	rw.replace(x.X.End(), x.Body.Lbrace+1, head)
	rw.insert(x.Body.Rbrace+1, " }", -depth)
}

func (rw *rewriter) rangeChan(x *ast.RangeStmt, depth int) {
	id := rw.site(x.Pos(), "chanrange")
	yid := rw.site(x.Body.Lbrace, "loop")
	c := fmt.Sprintf("c__%d", id)
	ok := fmt.Sprintf("ok__%d", id)
	yield := fmt.Sprintf(" %s.Yield(%d);", alias, yid)
	hasKey := x.Key != nil && !isBlank(x.Key)
	var head string
	recv := fmt.Sprintf("%s.Recv2(%s, %d)", alias, c, id)
	switch {
	case !hasKey:
		head = fmt.Sprintf("; for { _, %s := %s; if !%s { break };%s", ok, recv, ok, yield)
	case x.Tok == token.DEFINE:
		// one variable for the whole loop, as before Go 1.22 (see rangeMap)
		val := rw.text(x.Key.Pos(), x.Key.End())
		head = fmt.Sprintf("; %s := %s.Zero(%s); _ = %s; for { var %s bool; %s, %s = %s; if !%s { break };%s", val, alias, c, val, ok, val, ok, recv, ok, yield)
	default:
		head = fmt.Sprintf("; for { var %s bool; %s, %s = %s; if !%s { break };%s", ok, rw.text(x.Key.Pos(), x.Key.End()), ok, recv, ok, yield)
	}
	rw.replace(x.For, x.X.Pos(), fmt.Sprintf("{ %s := ", c))
	rw.replace(x.X.End(), x.Body.Lbrace+1, head)
	rw.insert(x.Body.Rbrace+1, " }", -depth)
}

// selectStmt rewrites
//
//	select { case c <- v: A; case x, ok := <-d: B; default: C }
//
// into a switch over verifsim.Select, which lets the scheduler decide which ready clause is taken
// (appendix A).  Channel and value expressions are evaluated once, before the choice.
// exprText returns the source text of e with the calls into package time that read the clock or
// arm a timer redirected to the simulated clock (the operands of select clauses are copied as
// text, not visited).
func (rw *rewriter) exprText(e ast.Expr) string {
	type span struct {
		from, to token.Pos
		repl     string
	}
	var spans []span
	ast.Inspect(e, func(n ast.Node) bool {
		call, ok := n.(*ast.CallExpr)
		if !ok {
			return true
		}
		se, ok := call.Fun.(*ast.SelectorExpr)
		if !ok {
			return true
		}
		pk, ok := se.X.(*ast.Ident)
		if !ok {
			return true
		}
		if pn, ok := rw.info.Uses[pk].(*types.PkgName); ok {
			if repl := clocked[pn.Imported().Path()+"."+se.Sel.Name]; repl != "" {
				rw.site(call.Pos(), "clock")
				spans = append(spans, span{se.Pos(), se.End(), alias + "." + repl})
				if rw.f.keep == nil {
					rw.f.keep = map[string]bool{}
				}
				rw.f.keep[pk.Name+"."+se.Sel.Name] = true
			}
			if unmodelledFuncs[pn.Imported().Name()+"."+se.Sel.Name] {
				rw.rep.Unmodelled = append(rw.rep.Unmodelled, fmt.Sprintf("%s:%d: %s.%s", rw.f.rel, rw.fset.Position(call.Pos()).Line, pn.Imported().Name(), se.Sel.Name))
			}
		}
		return true
	})
	sort.Slice(spans, func(i, j int) bool { return spans[i].from < spans[j].from })
	var sb strings.Builder
	at := e.Pos()
	for _, sp := range spans {
		sb.WriteString(rw.text(at, sp.from))
		sb.WriteString(sp.repl)
		at = sp.to
	}
	sb.WriteString(rw.text(at, e.End()))
	return sb.String()
}

func (rw *rewriter) selectStmt(x *ast.SelectStmt, depth int) error {
	id := rw.site(x.Pos(), "select")
	var decls, cases []string
	hasDefault := false
	idx := 0
	for _, cl := range x.Body.List {
		cc, ok := cl.(*ast.CommClause)
		if !ok {
			return fmt.Errorf("unexpected statement in select")
		}
		if cc.Comm == nil {
			hasDefault = true
			continue
		}
		header := fmt.Sprintf("case %d:", idx)
		switch comm := cc.Comm.(type) {
		case *ast.SendStmt:
			cases = append(cases, fmt.Sprintf("%s.CaseSend(%s, %s)", alias, rw.exprText(comm.Chan), rw.exprText(comm.Value)))
		case *ast.ExprStmt:
			u, ok := ast.Unparen(comm.X).(*ast.UnaryExpr)
			if !ok || u.Op != token.ARROW {
				return fmt.Errorf("unsupported select clause")
			}
			cases = append(cases, fmt.Sprintf("%s.CaseRecv(%s, nil, nil)", alias, rw.exprText(u.X)))
		case *ast.AssignStmt:
			if len(comm.Rhs) != 1 {
				return fmt.Errorf("unsupported select clause")
			}
			u, ok := ast.Unparen(comm.Rhs[0]).(*ast.UnaryExpr)
			if !ok || u.Op != token.ARROW {
				return fmt.Errorf("unsupported select clause")
			}
			c := fmt.Sprintf("c__%d_%d", id, idx)
			r := fmt.Sprintf("r__%d_%d", id, idx)
			k := fmt.Sprintf("ok__%d_%d", id, idx)
			decls = append(decls, fmt.Sprintf("%s := %s; %s := %s.Zero(%s); %s := false; _, _ = %s, %s", c, rw.exprText(u.X), r, alias, c, k, r, k))
			cases = append(cases, fmt.Sprintf("%s.CaseRecv(%s, &%s, &%s)", alias, c, r, k))
			var lhs, rhs []string
			for i, l := range comm.Lhs {
				if isBlank(l) {
					continue
				}
				lhs = append(lhs, rw.text(l.Pos(), l.End()))
				rhs = append(rhs, []string{r, k}[i])
			}
			if len(lhs) > 0 {
				tok := ":="
				if comm.Tok == token.ASSIGN {
					tok = "="
				}
				header += fmt.Sprintf(" %s %s %s;", strings.Join(lhs, ", "), tok, strings.Join(rhs, ", "))
			}
		default:
			return fmt.Errorf("unsupported select clause")
		}
		rw.replace(cc.Pos(), cc.Colon+1, header)
		idx++
	}
	head := "{ "
	for _, d := range decls {
		head += d + "; "
	}
	args := fmt.Sprintf("%d, %v", id, hasDefault)
	for _, c := range cases {
		args += ", " + c
	}
	head += fmt.Sprintf("switch %s.Select(%s) {", alias, args)
	rw.replace(x.Select, x.Body.Lbrace+1, head)
	rw.insert(x.Body.Rbrace+1, " }", -depth)
	return nil
}
