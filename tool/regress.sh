#!/bin/sh
# usage: tool/regress.sh [parallelism] [glob]   -- re-runs every seeded change against the current checks
# (side by side, without minimisation) and writes seeded/regression.txt: one line per change.
cd "$(dirname "$0")/.." || exit 2
P=${1:-3}
G=${2:-*}
export GOFLAGS=-mod=mod GOPROXY=off GOSUMDB=off GOTOOLCHAIN=local
(cd tool && go build -o ../bin/verif ./cmd/verif) || exit 2
ls -d seeded/$G/ | sed 's#/$##' | xargs -P "$P" -I{} sh -c 'python3 tool/seedcheck.py {} --regress 2>&1 | grep "^REGRESS" || echo "REGRESS $(basename {}) FAILED-TO-RUN"' > /tmp/regress.$$ 
{ echo "# regression of the seeded changes against the checks of commit $(git rev-parse --short HEAD) (exit 1 = reported, 0 = silent, 2 = trouble)"; sort /tmp/regress.$$; } > seeded/regression.txt
rm -f /tmp/regress.$$
grep -c "=1" seeded/regression.txt
