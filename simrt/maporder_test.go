package simrt

import (
	"fmt"
	"testing"
)

func TestMapKeysCanonicalAndRotation(t *testing.T) {
	m := map[string]int{}
	for _, k := range []string{"q", "b", "z", "a", "m"} {
		m[k] = 1
	}
	seen := map[string]bool{}
	for rep := 0; rep < 50; rep++ {
		for d := uint32(0); d < 5; d++ {
			SetMapPlan(SingleSitePlan(7, d))
			ks := MapKeys(m, 7)
			s := fmt.Sprint(ks)
			seen[fmt.Sprint(d, s)] = true
		}
	}
	SetMapPlan(nil)
	if len(seen) != 5 {
		t.Fatalf("want exactly 5 deterministic orders, got %v", seen)
	}
	if !seen["0[a m q b z]"] {
		t.Fatalf("canonical should be slot order rotated to smallest: %v", seen)
	}
	big := map[int]int{}
	for i := 0; i < 40; i++ {
		big[i*7%41] = i
	}
	SetMapPlan(CanonicalPlan())
	a := fmt.Sprint(MapKeys(big, 1))
	b := fmt.Sprint(MapKeys(big, 1))
	if a != b || a[:7] != "[0 1 2 " {
		t.Fatalf("canonical big not sorted/stable: %s", a)
	}
	p := RandomPlan(5, 1)
	SetMapPlan(p)
	c := fmt.Sprint(MapKeys(big, 1))
	if c == a || len(p.Log) != 1 {
		t.Fatalf("random plan did not perturb")
	}
	SetMapPlan(ExplicitPlan(p.Log))
	if d := fmt.Sprint(MapKeys(big, 1)); d != c {
		t.Fatalf("explicit replay differs")
	}
	SetMapPlan(nil)
}
