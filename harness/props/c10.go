package props

import (
	"encoding/json"
	"fmt"
	"sort"
	"strings"

	"verif/harness/internal/gen"
	"verif/harness/internal/sut"
	"verif/harness/internal/wk"
	"verif/simrt"
)

// msgPart is a part of a generated message body.
type msgPart struct {
	T     string    `json:"t"` // text | ph | tag | plural
	S     string    `json:"s,omitempty"`
	Cases []msgCase `json:"cases,omitempty"`
	Dflt  []msgPart `json:"default,omitempty"`
}

type msgCase struct {
	N    int       `json:"n"`
	Body []msgPart `json:"body"`
}

// msgSpec is one generated message.
type msgSpec struct {
	Meaning string    `json:"meaning,omitempty"`
	Desc    string    `json:"desc"`
	Body    []msgPart `json:"body"`
}

// c10Case is the replay case of C10: a message, the context variant it is observed in, and the
// perturbation.
type c10Case struct {
	Msg      msgSpec             `json:"msg"`
	Others   []msgSpec           `json:"others,omitempty"` // other messages placed around it
	Check    string              `json:"check"`            // maporder | context | history | sensitivity
	Variant  string              `json:"variant,omitempty"`
	MapOrder []simrt.MapDecision `json:"maporder,omitempty"`
	History  int                 `json:"history,omitempty"` // bundles compiled before it in the same process
	Unit     []msgSpec           `json:"unit,omitempty"`    // process check: all messages of the unit, compiled in order
	Index    int                 `json:"index,omitempty"`   // process check: which of them is compared
}

// placeholders whose base names collide in every way the naming algorithm distinguishes:
// equal expressions, distinct expressions with one base name, base names that look like
// suffixed names, and expressions without a base name.
var c10Exprs = []string{
	"$x", "$a.x", "$b.x", "$x_1", "$a.x_1", "$x_2", "$b.x_2", "$xx", "$a.y", "$b.y", "$y", "$a.x + 1", "$y * 2", "$a.x_1.z", "$b.x.x",
	"$xs[0]", "$a['x']", "length($xs)", "G_X", "app.G_X", "['x': $x]['x']", "['k': 1, 'j': $y, 'x': 2]['k']",
	// identifiers that differ only in case or in word boundaries
	"$userName", "$username", "$a.userName", "$b.username", "$user_name", "$a.USERNAME", "$xY", "$xy", "$x2y", "$a.x2Y",
	// the same reference under different print directives: distinct placeholders of one base name
	"$x|escapeUri", "$x|noAutoescape", "$x|id", "$a.x|escapeUri", "$y|truncate:5", "$y|truncate:6",
}

var c10Tags = []string{"<b>", "</b>", "<br/>", "<a href=\"u\">", "<a class=\"k\">", "</a>", "<i>", "<img src=\"s\"/>", "<a href=\"u\">", "<span>", "</span>", "<a_1>", "<B>", "<A HREF=\"u\">", "<a Href=\"u\">", "<BR/>"}
var c10Words = []string{"Hello ", "you have ", " new ", "items", ", ", "!", " and ", "é ", "{sp}", "x_1 ", "{lb}0{rb} ", "{lb}NAME{rb}", "{lb}", "{rb} ", "a{nil}b"}

// c10Cmds are commands that may stand inside a message body (they have attributes of their own).
var c10Cmds = []string{
	"{call .c10u}{param p: 1 /}{/call}", "{call .c10u data=\"all\"}{param p}x{/param}{/call}", "{call .c10u}{param key=\"p\" value=\"2\"/}{/call}",
}

// c10TextPairs are raw-text fragments whose texts differ (after Soy's own substitution of {lb},
// {rb}, {sp}, {nil}): a message ending in one must not share its id with the same message ending
// in the other.
var c10TextPairs = [][2]string{
	{"{lb}0{rb}", "0"}, {"{lb}NAME{rb}", "NAME"}, {"{lb}X_1{rb}", "X_1"}, {"{lb}{rb}", "()"}, {"{lb}a", "a{rb}"}, {"{lb}{lb}1{rb}{rb}", "{lb}1{rb}"},
	{"a{sp}b", "ab"}, {"a{nil}b", "a b"}, {"x{sp}{sp}y", "x{sp}y"}, {"<b>", "{lb}b{rb}"}, {"START_BOLD", "{lb}START_BOLD{rb}"},
}

func (m msgSpec) vars() []string {
	set := map[string]bool{}
	var walk func(ps []msgPart)
	walk = func(ps []msgPart) {
		for _, p := range ps {
			if p.T == "ph" || p.T == "plural" {
				s := p.S
				for i := 0; i < len(s); i++ {
					if s[i] == '$' {
						j := i + 1
						for j < len(s) && (s[j] == '_' || s[j] >= 'a' && s[j] <= 'z' || s[j] >= 'A' && s[j] <= 'Z' || s[j] >= '0' && s[j] <= '9') {
							j++
						}
						set[s[i+1:j]] = true
					}
				}
			}
			for _, c := range p.Cases {
				walk(c.Body)
			}
			walk(p.Dflt)
		}
	}
	walk(m.Body)
	var out []string
	for k := range set {
		out = append(out, k)
	}
	sort.Strings(out)
	return out
}

func printParts(sb *strings.Builder, ps []msgPart) {
	for _, p := range ps {
		switch p.T {
		case "text", "tag":
			sb.WriteString(p.S)
		case "ph":
			if strings.HasPrefix(p.S, "[") || strings.HasPrefix(p.S, "(") {
				sb.WriteString("{print " + p.S + "}")
			} else {
				sb.WriteString("{" + p.S + "}")
			}
		case "cmd":
			sb.WriteString(p.S) // a command inside the message body ({call}, block {let}): a placeholder of its own
		case "plural":
			sb.WriteString("{plural " + p.S + "}")
			for _, c := range p.Cases {
				fmt.Fprintf(sb, "{case %d}", c.N)
				printParts(sb, c.Body)
			}
			sb.WriteString("{default}")
			printParts(sb, p.Dflt)
			sb.WriteString("{/plural}")
		}
	}
}

func (m msgSpec) source() string {
	var sb strings.Builder
	sb.WriteString("{msg")
	if m.Meaning != "" {
		fmt.Fprintf(&sb, " meaning=%q", m.Meaning)
	}
	fmt.Fprintf(&sb, " desc=%q}", m.Desc)
	printParts(&sb, m.Body)
	sb.WriteString("{/msg}")
	return sb.String()
}

// bundleFor prints a one-file bundle holding the messages in one template.
func bundleFor(ns, tmpl, file string, msgs []msgSpec) *gen.Case {
	vars := map[string]bool{}
	for _, m := range msgs {
		for _, v := range m.vars() {
			vars[v] = true
		}
	}
	var names []string
	for v := range vars {
		names = append(names, v)
	}
	sort.Strings(names)
	var sb strings.Builder
	fmt.Fprintf(&sb, "{namespace %s}\n\n/**\n", ns)
	for _, v := range names {
		fmt.Fprintf(&sb, " * @param %s\n", v)
	}
	fmt.Fprintf(&sb, " */\n{template .%s}\n", tmpl)
	for _, m := range msgs {
		sb.WriteString(m.source() + "\n")
	}
	sb.WriteString("{/template}\n")
	if tmpl != "c10u" {
		sb.WriteString("\n/** @param? p */\n{template .c10u}\n{$p}\n{/template}\n")
	}
	c := &gen.Case{Files: []*gen.File{{Name: file, Text: sb.String()}}}
	c.Globals = []gen.KV{{K: "G_X", V: gen.DVal{T: "int", I: 1}}, {K: "app.G_X", V: gen.DVal{T: "str", S: "g"}}}
	return c
}

// nestings are the constructs a message can sit inside: "surrounding code" in the property's words.
var nestings = map[string][2]string{
	"in-if":             {"{if $c10b}", "{/if}"},
	"in-else":           {"{if $c10b}x{else}", "{/if}"},
	"in-elseif":         {"{if $c10b}x{elseif not $c10b}", "{else}y{/if}"},
	"in-switch-case":    {"{switch $c10n}{case 0}x{case 1, 2}", "{default}y{/switch}"},
	"in-switch-default": {"{switch $c10n}{case 0}x{default}", "{/switch}"},
	"in-foreach":        {"{foreach $c10i in $c10l}", "{/foreach}"},
	"in-ifempty":        {"{foreach $c10i in $c10l}x{ifempty}", "{/foreach}"},
	"in-for":            {"{for $c10i in range(2)}", "{/for}"},
	"in-let":            {"{let $c10v}", "{/let}{$c10v}"},
	"in-param":          {"{call .c10u}{param p}", "{/param}{/call}"},
	"in-log":            {"{log}", "{/log}"},
	"deep":              {"{if $c10b}{foreach $c10i in $c10l}{switch $c10n}{case 3}{let $c10v}", "{/let}{$c10v}{/switch}{ifempty}z{/foreach}{/if}"},
	"deep-ifempty":      {"{foreach $c10i in $c10l}x{ifempty}{if $c10b}{for $c10j in range(1)}", "{/for}{/if}{/foreach}"},
	// comments and whitespace around the message are surrounding code too
	"after-line-comment":  {"text // a comment\n", ""},
	"after-block-comment": {"/* a comment */", "/* another */"},
	"between-comments":    {"x /* c */ // d\n  ", "  // e\n"},
	"comment-in-param":    {"// c\n{call .c10u}{param p}/* c */", "// d\n{/param}{/call}/* e */"},
	"comment-before-let":  {"/* c */{let $c10v}// d\n", "{/let}{$c10v}"},
	"indented-lines":      {"\n\n      ", "\n      \n"},
}

var nestingNames = func() []string {
	var out []string
	for k := range nestings {
		out = append(out, k)
	}
	sort.Strings(out)
	return out
}()

// nestedBundle prints a one-file bundle whose template holds the message inside the given nesting.
func nestedBundle(kind string, m msgSpec) *gen.Case {
	w := nestings[kind]
	vars := map[string]bool{"c10b": true, "c10n": true, "c10l": true}
	for _, v := range m.vars() {
		vars[v] = true
	}
	var names []string
	for v := range vars {
		names = append(names, v)
	}
	sort.Strings(names)
	var sb strings.Builder
	sb.WriteString("{namespace app.m}\n\n/**\n")
	for _, v := range names {
		fmt.Fprintf(&sb, " * @param? %s\n", v)
	}
	sb.WriteString(" */\n{template .t}\n" + w[0] + m.source() + w[1] + "\n{$c10b}{$c10n}{$c10l}\n{/template}\n")
	sb.WriteString("\n/** @param p */\n{template .c10u}\n{$p}\n{/template}\n")
	c := &gen.Case{Files: []*gen.File{{Name: "m.soy", Text: sb.String()}}}
	c.Globals = []gen.KV{{K: "G_X", V: gen.DVal{T: "int", I: 1}}, {K: "app.G_X", V: gen.DVal{T: "str", S: "g"}}}
	return c
}

func genParts(r *simrt.RNG, n int, allowPlural bool) []msgPart {
	var out []msgPart
	for i := 0; i < n; i++ {
		switch x := r.Intn(11); {
		case x == 10:
			out = append(out, msgPart{T: "cmd", S: c10Cmds[r.Intn(len(c10Cmds))]})
		case x < 3:
			out = append(out, msgPart{T: "text", S: c10Words[r.Intn(len(c10Words))]})
		case x < 5:
			out = append(out, msgPart{T: "tag", S: c10Tags[r.Intn(len(c10Tags))]})
		default:
			out = append(out, msgPart{T: "ph", S: c10Exprs[r.Intn(len(c10Exprs))]})
		}
	}
	return out
}

func genMsg(r *simrt.RNG) msgSpec {
	m := msgSpec{Desc: []string{"", "d1", "a longer description"}[r.Intn(3)]}
	if r.Intn(4) == 0 {
		m.Meaning = []string{"noun", "verb", "x"}[r.Intn(3)]
	}
	if r.Intn(4) == 0 {
		pl := msgPart{T: "plural", S: []string{"$n", "$a.n", "length($xs)", "$x"}[r.Intn(4)]}
		for c, nc := 0, r.Intn(3); c < nc; c++ {
			pl.Cases = append(pl.Cases, msgCase{N: c, Body: genParts(r, 1+r.Intn(4), false)})
		}
		pl.Dflt = genParts(r, 1+r.Intn(4), false)
		if r.Intn(4) == 0 {
			// a plural inside a case of the plural
			inner := msgPart{T: "plural", S: []string{"$n", "$y", "length($xs)"}[r.Intn(3)]}
			inner.Cases = []msgCase{{N: 1, Body: genParts(r, 1+r.Intn(3), false)}}
			inner.Dflt = genParts(r, 1+r.Intn(3), false)
			if len(pl.Cases) > 0 && r.Intn(2) == 0 {
				pl.Cases[0].Body = append(pl.Cases[0].Body, inner)
			} else {
				pl.Dflt = append(pl.Dflt, inner)
			}
		}
		m.Body = []msgPart{pl}
		return m
	}
	n := 1 + r.Intn(7)
	if r.Intn(6) == 0 {
		n = 9 + r.Intn(6) // a long message: more placeholders than any small-case shortcut covers
	}
	m.Body = genParts(r, n, true)
	return m
}

// observeMsg compiles the bundle and returns the observations of its messages.
func observeMsgCase(c *gen.Case, plan *simrt.MapPlan) (vector, *simrt.Result) {
	return observeUnder(c, obsOpts{renders: 0, js: false}, plan)
}

func sameMsg(a, b msgObs) (string, string) {
	switch {
	case strings.Join(a.Names, ",") != strings.Join(b.Names, ","):
		return "placeholder names", fmt.Sprintf("%v vs %v", a.Names, b.Names)
	case a.PH != b.PH:
		return "placeholder string", fmt.Sprintf("%q vs %q", a.PH, b.PH)
	case a.ID != b.ID:
		return "message id", fmt.Sprintf("%d vs %d for %q", a.ID, b.ID, a.PH)
	}
	return "", ""
}

// c10Exec executes one check of a case; it returns a failure, or nil.
func c10Exec(cs *c10Case, plan *simrt.MapPlan, u *wk.Unit) *wk.Failure {
	mk := func(site, detail string) *wk.Failure {
		out := *cs
		if plan != nil {
			out.MapOrder = plan.Log
		}
		b, _ := json.Marshal(&out)
		return &wk.Failure{Class: "unequal", Site: cs.Check + ": " + site, Detail: detail + "\nmessage: " + cs.Msg.source(), Replay: b}
	}
	base := bundleFor("app.m", "t", "m.soy", []msgSpec{cs.Msg})
	ref, _ := observeMsgCase(base, simrt.CanonicalPlan())
	if ref.Trouble != "" {
		return &wk.Failure{Class: "machinery", Detail: ref.Trouble}
	}
	if !ref.Accept || len(ref.Msgs) != 1 {
		return &wk.Failure{Class: "invalid-case", Detail: ref.Err}
	}
	r0 := ref.Msgs[0]
	for _, n := range r0.Names {
		if n == "" {
			// names are derived from the variable, field or tag: a placeholder the naming pass skipped has none
			return mk("unnamed placeholder", fmt.Sprintf("a placeholder of the message was left without a name: names %q, placeholder string %q", r0.Names, r0.PH))
		}
	}
	if u != nil {
		u.Counters["placeholders_in_messages"] += int64(len(r0.Names))
		seen := map[string]bool{}
		for _, n := range r0.Names {
			if i := strings.LastIndex(n, "_"); i > 0 && strings.Trim(n[i+1:], "0123456789") == "" {
				seen["suffix"] = true
			}
		}
		if seen["suffix"] {
			u.Counters["messages_with_suffixed_placeholder_names"]++
		}
	}
	switch cs.Check {
	case "maporder":
		v, _ := observeMsgCase(base, plan)
		if v.Trouble != "" {
			return mk("crash or hang under another order", "the compilation finishes under the canonical order and under another legal map iteration order it does not: "+v.Trouble)
		}
		if !v.Accept || len(v.Msgs) != 1 {
			return mk("accept/reject decision", "the bundle is rejected under a different map iteration order: "+v.Err)
		}
		if comp, d := sameMsg(r0, v.Msgs[0]); comp != "" {
			return mk(comp, comp+" differs under a different legal map iteration order in the placeholder naming pass: "+d)
		}
	case "history":
		// the same message compiled after cs.History other bundles in the same process
		var v vector
		res := inSim(func() {
			for k := 0; k < cs.History; k++ {
				o := cs.Others[k%len(cs.Others)]
				sut.Compile(bundleFor(fmt.Sprintf("h.n%d", k), "u", "h.soy", []msgSpec{o, cs.Msg}))
			}
			v = observeCase(base, obsOpts{})
		})
		if res.Budget || res.Deadlock {
			return &wk.Failure{Class: "machinery", Detail: "history did not finish"}
		}
		if !v.Accept || len(v.Msgs) != 1 {
			return mk("accept/reject decision", "rejected after a history: "+v.Err)
		}
		if comp, d := sameMsg(r0, v.Msgs[0]); comp != "" {
			return mk(comp, fmt.Sprintf("%s differs when the message is compiled after %d other bundles in the same process: %s", comp, cs.History, d))
		}
	case "context":
		var c *gen.Case
		idx := 0
		switch cs.Variant {
		case "surrounded":
			c = bundleFor("app.m", "t", "m.soy", append(append([]msgSpec{cs.Others[0]}, cs.Msg), cs.Others[1:]...))
			idx = 1
		case "elsewhere":
			c = bundleFor("other.pkg.deep", "zz9", "dir/other.soy", []msgSpec{cs.Msg})
		case "description", "description-bar", "description-punct", "description-empty":
			m := cs.Msg
			switch cs.Variant {
			case "description":
				m.Desc = m.Desc + " (reworded for translators)"
			case "description-bar":
				m.Desc = "noun|" + m.Desc + "|verb"
			case "description-punct":
				m.Desc = "a: b = c; 50% {x} 'q' <b> & co."
			default:
				m.Desc = ""
			}
			c = bundleFor("app.m", "t", "m.soy", []msgSpec{m})
		case "twice":
			c = bundleFor("app.m", "t", "m.soy", []msgSpec{cs.Msg, cs.Msg})
			idx = 1
		case "after-impostor":
			// an earlier message whose literal text is this message's placeholder string ("Hello {X}!"
			// written with {lb} and {rb}), with the same meaning
			txt := strings.NewReplacer("{", "{lb}", "}", "{rb}").Replace(r0.PH)
			if txt == r0.PH || strings.ContainsAny(r0.PH, "\n") {
				return nil // no placeholders: nothing to impersonate
			}
			c = bundleFor("app.m", "t", "m.soy", []msgSpec{{Desc: "impostor", Meaning: cs.Msg.Meaning, Body: []msgPart{{T: "text", S: txt}}}, cs.Msg})
			idx = 1
		case "after-meaning-twin":
			// an earlier message of the same compilation with the same body and another meaning
			tw := cs.Msg
			tw.Desc = "twin"
			if tw.Meaning = "noun"; cs.Msg.Meaning == "noun" {
				tw.Meaning = "verb"
			}
			c = bundleFor("app.m", "t", "m.soy", []msgSpec{tw, cs.Msg})
			idx = 1
		default:
			if _, ok := nestings[cs.Variant]; !ok {
				return &wk.Failure{Class: "invalid-case", Detail: "variant"}
			}
			c = nestedBundle(cs.Variant, cs.Msg)
		}
		v, _ := observeMsgCase(c, simrt.CanonicalPlan())
		if cs.Variant != "surrounded" && (!v.Accept || len(v.Msgs) <= idx) {
			// the message compiles on its own (r0 exists) and the wrapper is fixed text: being rejected,
			// or not being found among the bundle's messages, is an effect of the surrounding code
			if !v.Accept {
				return mk("accepted alone, rejected in context ("+cs.Variant+")", fmt.Sprintf("the message compiles alone and is rejected in context %q: %s", cs.Variant, v.Err))
			}
			return mk("message lost in context ("+cs.Variant+")", fmt.Sprintf("in context %q the compiled bundle holds %d messages, the message is not among them", cs.Variant, len(v.Msgs)))
		}
		if !v.Accept || len(v.Msgs) <= idx {
			return &wk.Failure{Class: "invalid-case", Detail: v.Err}
		}
		if comp, d := sameMsg(r0, v.Msgs[idx]); comp != "" {
			return mk(comp+" ("+cs.Variant+")", fmt.Sprintf("%s of the same message differs in context %q: %s", comp, cs.Variant, d))
		}
	case "sensitivity":
		m := cs.Msg
		switch cs.Variant {
		case "text":
			m.Body = append(append([]msgPart{}, m.Body...), msgPart{T: "text", S: " more"})
			if len(m.Body) > 0 && m.Body[0].T == "plural" {
				pl := m.Body[0]
				pl.Dflt = append(append([]msgPart{}, pl.Dflt...), msgPart{T: "text", S: " more"})
				m.Body = []msgPart{pl}
			}
		case "meaning":
			m.Meaning = m.Meaning + "other"
		case "placeholder":
			m.Body = append(append([]msgPart{}, m.Body...), msgPart{T: "ph", S: "$brand_new"})
			if len(m.Body) > 0 && m.Body[0].T == "plural" {
				pl := m.Body[0]
				pl.Dflt = append(append([]msgPart{}, pl.Dflt...), msgPart{T: "ph", S: "$brand_new"})
				m.Body = []msgPart{pl}
			}
		case "nested-placeholder":
			// a placeholder added inside the innermost plural of a nested plural
			if len(m.Body) == 0 || m.Body[0].T != "plural" {
				return nil
			}
			pl := m.Body[0]
			found := false
			addTo := func(ps []msgPart) []msgPart {
				out := append([]msgPart{}, ps...)
				for i := range out {
					if out[i].T == "plural" && !found {
						in := out[i]
						in.Dflt = append(append([]msgPart{}, in.Dflt...), msgPart{T: "ph", S: "$brand_new"})
						out[i] = in
						found = true
					}
				}
				return out
			}
			pl.Dflt = addTo(pl.Dflt)
			cases := append([]msgCase{}, pl.Cases...)
			for i := range cases {
				cases[i].Body = addTo(cases[i].Body)
			}
			pl.Cases = cases
			if !found {
				return nil
			}
			m.Body = []msgPart{pl}
		case "plural-structure":
			if len(m.Body) == 0 || m.Body[0].T != "plural" {
				return nil
			}
			pl := m.Body[0]
			pl.Cases = append(append([]msgCase{}, pl.Cases...), msgCase{N: 7, Body: []msgPart{{T: "text", S: "seven"}}})
			m.Body = []msgPart{pl}
		case "directive":
			// one of two equal placeholders gets a print directive: two distinct placeholders now
			if len(m.Body) > 0 && m.Body[0].T == "plural" {
				return nil
			}
			a, b := m, m
			a.Body = append(append([]msgPart{}, m.Body...), msgPart{T: "ph", S: "$c10d"}, msgPart{T: "ph", S: "$c10d"})
			b.Body = append(append([]msgPart{}, m.Body...), msgPart{T: "ph", S: "$c10d"}, msgPart{T: "ph", S: "$c10d|escapeUri"})
			va, _ := observeMsgCase(bundleFor("app.m", "t", "m.soy", []msgSpec{a}), simrt.CanonicalPlan())
			vb, _ := observeMsgCase(bundleFor("app.m", "t", "m.soy", []msgSpec{b}), simrt.CanonicalPlan())
			if !va.Accept || !vb.Accept || len(va.Msgs) != 1 || len(vb.Msgs) != 1 {
				return &wk.Failure{Class: "invalid-case", Detail: va.Err + vb.Err}
			}
			if va.Msgs[0].ID == vb.Msgs[0].ID {
				return mk("id insensitive to placeholder structure", fmt.Sprintf("a message with one placeholder used twice and the same message with a print directive on the second use (two distinct placeholders) share the id %d (%q vs %q)", va.Msgs[0].ID, va.Msgs[0].PH, vb.Msgs[0].PH))
			}
			return nil
		case "tag-case", "meaning-whitespace", "directive-args":
			if len(m.Body) > 0 && m.Body[0].T == "plural" {
				return nil
			}
			var pairs [][2]msgSpec
			if cs.Variant == "directive-args" {
				// one print used twice, against the same print followed by one that differs from it only in
				// an argument of a directive or in the order of its directives: two distinct placeholders
				for _, pd := range [][2]string{{"$c10d|truncate:5", "$c10d|truncate:10"}, {"$c10d|truncate:5,true", "$c10d|truncate:5,false"},
					{"$c10d|insertWordBreaks:3", "$c10d|insertWordBreaks:4"}, {"$c10d|truncate:5|escapeUri", "$c10d|truncate:6|escapeUri"},
					{"$c10d|escapeUri|truncate:8", "$c10d|truncate:8|escapeUri"}, {"$c10d|truncate:8", "$c10d|truncate:8,true"}} {
					a, b := m, m
					a.Body = append(append([]msgPart{}, m.Body...), msgPart{T: "ph", S: pd[0]}, msgPart{T: "ph", S: pd[0]})
					b.Body = append(append([]msgPart{}, m.Body...), msgPart{T: "ph", S: pd[0]}, msgPart{T: "ph", S: pd[1]})
					pairs = append(pairs, [2]msgSpec{a, b})
				}
			} else if cs.Variant == "tag-case" {
				// a tag used twice, against the same tag once in another letter case: two distinct placeholders
				for _, tg := range [][2]string{{"<a href=\"u\">", "<a HREF=\"u\">"}, {"<b>", "<B>"}, {"<span class=\"k\">", "<span class=\"K\">"}} {
					a, b := m, m
					a.Body = append(append([]msgPart{}, m.Body...), msgPart{T: "tag", S: tg[0]}, msgPart{T: "tag", S: tg[0]})
					b.Body = append(append([]msgPart{}, m.Body...), msgPart{T: "tag", S: tg[0]}, msgPart{T: "tag", S: tg[1]})
					pairs = append(pairs, [2]msgSpec{a, b})
				}
			} else {
				for _, mg := range [][2]string{{"noun", "noun "}, {"noun", " noun"}, {"a b", "a  b"}, {"a b", "a\tb"}, {"x", "x\u00a0"}, {" ", "  "}} {
					a, b := m, m
					a.Meaning, b.Meaning = mg[0], mg[1]
					pairs = append(pairs, [2]msgSpec{a, b})
				}
			}
			for _, pr := range pairs {
				va, _ := observeMsgCase(bundleFor("app.m", "t", "m.soy", []msgSpec{pr[0]}), simrt.CanonicalPlan())
				vb, _ := observeMsgCase(bundleFor("app.m", "t", "m.soy", []msgSpec{pr[1]}), simrt.CanonicalPlan())
				if !va.Accept || !vb.Accept || len(va.Msgs) != 1 || len(vb.Msgs) != 1 {
					if cs.Variant == "directive-args" {
						return &wk.Failure{Class: "invalid-case", Detail: va.Err + vb.Err}
					}
					continue
				}
				if va.Msgs[0].ID == vb.Msgs[0].ID {
					return mk("id insensitive to "+cs.Variant, fmt.Sprintf("two messages that differ (%s: %q vs %q) share the id %d (%q vs %q)", cs.Variant, pr[0].source(), pr[1].source(), va.Msgs[0].ID, va.Msgs[0].PH, vb.Msgs[0].PH))
				}
			}
			return nil
		case "text-pairs":
			if len(m.Body) > 0 && m.Body[0].T == "plural" {
				return nil
			}
			for _, pr := range c10TextPairs {
				a, b := m, m
				a.Body = append(append([]msgPart{}, m.Body...), msgPart{T: "text", S: pr[0]})
				b.Body = append(append([]msgPart{}, m.Body...), msgPart{T: "text", S: pr[1]})
				va, _ := observeMsgCase(bundleFor("app.m", "t", "m.soy", []msgSpec{a}), simrt.CanonicalPlan())
				vb, _ := observeMsgCase(bundleFor("app.m", "t", "m.soy", []msgSpec{b}), simrt.CanonicalPlan())
				if !va.Accept || !vb.Accept || len(va.Msgs) != 1 || len(vb.Msgs) != 1 {
					return &wk.Failure{Class: "invalid-case", Detail: va.Err + vb.Err}
				}
				if va.Msgs[0].ID == vb.Msgs[0].ID {
					return mk("id insensitive to text", fmt.Sprintf("two messages whose texts differ (one ends in %q, the other in %q) share the id %d (%q vs %q)", pr[0], pr[1], va.Msgs[0].ID, va.Msgs[0].PH, vb.Msgs[0].PH))
				}
			}
			return nil
		case "last-char", "meaning-last-char":
			// two messages that differ in their very last byte only, at every length modulo 12 (the
			// fingerprint consumes its input in 12-byte blocks)
			if len(m.Body) > 0 && m.Body[0].T == "plural" {
				return nil
			}
			for pad := 0; pad < 12; pad++ {
				a, b := m, m
				if cs.Variant == "last-char" {
					a.Body = append(append([]msgPart{}, m.Body...), msgPart{T: "text", S: strings.Repeat("p", pad) + "a"})
					b.Body = append(append([]msgPart{}, m.Body...), msgPart{T: "text", S: strings.Repeat("p", pad) + "b"})
				} else {
					a.Meaning = strings.Repeat("m", pad) + "a"
					b.Meaning = strings.Repeat("m", pad) + "b"
				}
				va, _ := observeMsgCase(bundleFor("app.m", "t", "m.soy", []msgSpec{a}), simrt.CanonicalPlan())
				vb, _ := observeMsgCase(bundleFor("app.m", "t", "m.soy", []msgSpec{b}), simrt.CanonicalPlan())
				if !va.Accept || !vb.Accept || len(va.Msgs) != 1 || len(vb.Msgs) != 1 {
					return &wk.Failure{Class: "invalid-case", Detail: va.Err + vb.Err}
				}
				if va.Msgs[0].ID == vb.Msgs[0].ID {
					return mk("id insensitive to "+cs.Variant, fmt.Sprintf("two messages that differ only in the last byte of their %s share the id %d (%q vs %q, meanings %q vs %q)",
						map[string]string{"last-char": "text", "meaning-last-char": "meaning"}[cs.Variant], va.Msgs[0].ID, va.Msgs[0].PH, vb.Msgs[0].PH, a.Meaning, b.Meaning))
				}
			}
			return nil
		default:
			return &wk.Failure{Class: "invalid-case", Detail: "variant"}
		}
		v, _ := observeMsgCase(bundleFor("app.m", "t", "m.soy", []msgSpec{m}), simrt.CanonicalPlan())
		if !v.Accept || len(v.Msgs) != 1 {
			return &wk.Failure{Class: "invalid-case", Detail: v.Err}
		}
		if v.Msgs[0].ID == r0.ID {
			return mk("id insensitive to "+cs.Variant, fmt.Sprintf("changing the %s of the message leaves its id at %d (%q vs %q)", cs.Variant, r0.ID, r0.PH, v.Msgs[0].PH))
		}
	default:
		return &wk.Failure{Class: "invalid-case", Detail: "check"}
	}
	return nil
}

// C10 is the worker entry point for property C10.
func C10(c *wk.Ctx) {
	LoadSites(c.Sites)
	sut.InstallExtensions()
	sut.SetObligatory(nil)
	if c.Mode == "replay" {
		var cs c10Case
		readReplay(c, &cs)
		u := wk.NewUnit(0)
		if cs.Check == "native" {
			// statistical replay: many native compilations of the message in this process
			first := ""
			for k := 0; k < 400; k++ {
				v, _ := observeMsgCase(bundleFor("app.m", "t", "m.soy", []msgSpec{cs.Msg}), nil)
				u.Evals++
				d := vecDigest(v)
				if k == 0 {
					first = d
				} else if d != first {
					b, _ := json.Marshal(&cs)
					u.AddFail(&wk.Failure{Class: "native-disagreement", Site: "message id or placeholder names",
						Detail: "two compilations of the same message in one process (native map iteration order) disagree: " + cs.Msg.source(), Replay: b})
					break
				}
			}
			c.Emit(u)
			return
		}
		if cs.Check == "process" {
			if cs.Index < 0 || cs.Index >= len(cs.Unit) {
				u.AddFail(&wk.Failure{Class: "invalid-case", Detail: "index"})
				c.Emit(u)
				return
			}
			mine := c10Forward(cs.Unit)
			other, err := c.Child("oracle-replay", 0, "rev")
			if err != nil {
				c.Fatal("%v", err)
			}
			u.Evals = int64(2 * len(cs.Unit))
			u.AddFail(c10ProcessDiff(&cs, mine, other))
			c.Emit(u)
			return
		}
		var plan *simrt.MapPlan
		if cs.Check == "maporder" {
			plan = simrt.ExplicitPlan(cs.MapOrder)
		}
		if (cs.Check == "history" || cs.Variant == "surrounded") && len(cs.Others) == 0 {
			u.AddFail(&wk.Failure{Class: "invalid-case", Detail: "no other messages"})
			c.Emit(u)
			return
		}
		u.Evals = 1
		u.AddFail(c10Exec(&cs, plan, nil))
		c.Emit(u)
		return
	}
	if c.Mode == "oracle-replay" {
		var cs c10Case
		readReplay(c, &cs)
		u := wk.NewUnit(0)
		for k, v := range c10Reverse(cs.Unit) {
			u.Observe(k, v)
		}
		c.Emit(u)
		return
	}
	units, perUnit := 500, 12
	if c.Tier == "thorough" {
		units = 120000
	}
	native := c.Extra == "native"
	if c.Mode == "plan" {
		c.Emit(map[string]interface{}{"ev": "plan", "units": units, "messages_per_unit": perUnit})
		return
	}
	unitMsgs := func(run int) []msgSpec {
		var out []msgSpec
		for mi := 0; mi < perUnit; mi++ {
			out = append(out, genMsg(simrt.NewRNG(c.UnitSeed(run, uint64(1000+mi)))))
		}
		return out
	}
	if c.Mode == "oracle" {
		// a fresh process that compiles the unit's messages in reverse order
		u := wk.NewUnit(c.Start)
		for k, v := range c10Reverse(unitMsgs(c.Start)) {
			u.Observe(k, v)
		}
		c.Emit(u)
		return
	}
	for run := c.Start; run < c.Start+c.Count && run < units; run++ {
		c.Begin(run)
		u := wk.NewUnit(run)
		if !native {
			// (c') processes with different histories: this process compiles the unit's messages first to
			// last (and much else in between), a fresh child process compiles them last to first
			msgs := unitMsgs(run)
			mine := c10Forward(msgs)
			other, err := c.Child("oracle", run, "rev")
			if err != nil {
				u.Trouble = err.Error()
			} else {
				for mi := range msgs {
					u.Evals++
					u.Counters["check_process"]++
					u.AddFail(c10ProcessDiff(&c10Case{Check: "process", Unit: msgs, Index: mi, Msg: msgs[mi]}, mine, other))
				}
			}
		}
		for mi := 0; mi < perUnit; mi++ {
			// one PRNG per message, so that the native and the instrumented worker draw the same one
			r := simrt.NewRNG(c.UnitSeed(run, uint64(1000+mi)))
			m := genMsg(r)
			others := []msgSpec{genMsg(r), genMsg(r), genMsg(r)}
			if native {
				// plain build under native map order: the observation is compared across processes
				for k := 0; k < 3; k++ {
					v, _ := observeMsgCase(bundleFor("app.m", "t", "m.soy", []msgSpec{m}), nil)
					u.Evals++
					if k == 0 {
						u.Observe(fmt.Sprintf("m%d", mi), vecDigest(v))
					} else if u.Vec[fmt.Sprintf("m%d", mi)] != vecDigest(v) {
						cs := c10Case{Msg: m, Check: "native"}
						b, _ := json.Marshal(&cs)
						u.AddFail(&wk.Failure{Class: "native-disagreement", Site: "message id or placeholder names",
							Detail: "two compilations of the same message in one process (native map iteration order) disagree: " + m.source(), Replay: b})
					}
				}
				continue
			}
			do := func(cs *c10Case, plan *simrt.MapPlan) {
				f := c10Exec(cs, plan, u)
				u.Evals++
				u.Counters["check_"+cs.Check]++
				if plan != nil {
					u.Counters["map_order_decisions_perturbed"] += plan.Perturbed
					if plan.Perturbed > 0 {
						h := uint64(0)
						for _, d := range plan.Log {
							h = h*1099511628211 ^ uint64(d.Site)<<20 ^ uint64(d.Exec)<<8 ^ uint64(d.D)
						}
						u.Hash("order_assignment", h^wk.FNV(m.source()))
					}
				}
				if f == nil {
					return
				}
				switch f.Class {
				case "invalid-case":
					u.Counters["generator_discards"]++
				case "machinery":
					u.Trouble = f.Detail
				default:
					u.AddFail(f)
				}
			}
			u.Hash("message", wk.FNV(m.source()))
			// the reference observation of the instrumented build, for the cross-process comparison
			if v, _ := observeMsgCase(bundleFor("app.m", "t", "m.soy", []msgSpec{m}), simrt.CanonicalPlan()); v.Trouble == "" {
				u.Observe(fmt.Sprintf("m%d", mi), vecDigest(v))
			}
			// (a) every range site of the naming pass, one at a time and all together
			stats := simrt.RandomPlan(1, 0)
			observeMsgCase(bundleFor("app.m", "t", "m.soy", []msgSpec{m}), stats)
			var sites []int
			for s, n := range stats.SiteMaxN {
				if n >= 2 {
					sites = append(sites, s)
				}
			}
			sort.Ints(sites)
			for _, s := range sites {
				u.Hash("range_site_reached", uint64(s))
				for d := 1; d < stats.SiteMaxN[s] && d <= 4; d++ {
					do(&c10Case{Msg: m, Check: "maporder"}, simrt.SingleSitePlan(s, uint32(d)))
				}
			}
			for k := 0; k < 4; k++ {
				do(&c10Case{Msg: m, Check: "maporder"}, simrt.RandomPlan(c.UnitSeed(run, uint64(100+mi*8+k)), []float64{1, 1, 0.5, 0.2}[k]))
			}
			// (b) histories
			do(&c10Case{Msg: m, Others: others, Check: "history", History: 1 + r.Intn(6)}, nil)
			// (d) contexts
			for _, v := range []string{"surrounded", "elsewhere", "description", "description-bar", "description-punct", "description-empty", "twice", "after-impostor", "after-meaning-twin"} {
				do(&c10Case{Msg: m, Others: others, Check: "context", Variant: v}, nil)
			}
			for _, v := range nestingNames {
				do(&c10Case{Msg: m, Check: "context", Variant: v}, nil)
				u.Counters["check_context_nested"]++
			}
			// (e) sensitivity
			for _, v := range []string{"text", "meaning", "placeholder", "plural-structure", "last-char", "meaning-last-char", "text-pairs", "directive", "nested-placeholder", "tag-case", "meaning-whitespace", "directive-args"} {
				do(&c10Case{Msg: m, Check: "sensitivity", Variant: v}, nil)
			}
			if mi == 0 {
				u.Sample(1, map[string]interface{}{"message": m.source(), "range_sites": sites})
			}
		}
		c.Emit(u)
	}
}

func c10ObsString(v vector) string {
	if !v.Accept || len(v.Msgs) != 1 {
		return "rejected: " + v.Err
	}
	m := v.Msgs[0]
	return fmt.Sprintf("id=%d names=%v ph=%q", m.ID, m.Names, m.PH)
}

// c10Forward observes every message of a unit, first to last, in this process.
func c10Forward(msgs []msgSpec) map[string]string {
	out := map[string]string{}
	for i, m := range msgs {
		v, _ := observeMsgCase(bundleFor("app.m", "t", "m.soy", []msgSpec{m}), simrt.CanonicalPlan())
		out[fmt.Sprintf("m%d", i)] = c10ObsString(v)
	}
	return out
}

// c10Reverse observes them last to first.
func c10Reverse(msgs []msgSpec) map[string]string {
	out := map[string]string{}
	for i := len(msgs) - 1; i >= 0; i-- {
		v, _ := observeMsgCase(bundleFor("app.m", "t", "m.soy", []msgSpec{msgs[i]}), simrt.CanonicalPlan())
		out[fmt.Sprintf("m%d", i)] = c10ObsString(v)
	}
	return out
}

func c10ProcessDiff(cs *c10Case, mine, other map[string]string) *wk.Failure {
	k := fmt.Sprintf("m%d", cs.Index)
	if mine[k] == other[k] {
		return nil
	}
	b, _ := json.Marshal(cs)
	return &wk.Failure{Class: "unequal", Site: "process: id or placeholder names depend on what the process compiled before",
		Detail: fmt.Sprintf("message %d of the unit, compiled after the messages before it in this process: %s\nthe same message in a fresh process that compiled the unit's messages in reverse order: %s\nmessage: %s",
			cs.Index, mine[k], other[k], cs.Unit[cs.Index].source()), Replay: b}
}
