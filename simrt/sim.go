// Package simrt is the deterministic-simulation runtime that instrumented copies of
// robfig/soy call into (see /verif/DESIGN.md section 3).
//
// Tasks are real goroutines; exactly one holds the baton at any time.  A dedicated
// scheduler goroutine owns all simulator state and picks the next task from a Chooser
// (seeded PRNG strategy, or an explicit decision list on replay).  The baton is handed
// over with channel operations wrapped in runtime.RaceDisable/RaceEnable, so that the
// race detector does not see a happens-before edge at a task switch: the execution is
// serial and replayable, yet conflicting accesses that the program under test does not
// order itself are still reported.  Every function of this package that touches
// simulator state is //go:norace for the same reason.
package simrt

import (
	"fmt"
	"reflect"
	"runtime"
	"runtime/debug"
	"strconv"
	"sync"
	"unsafe"
)

// Config configures one simulated run.
type Config struct {
	Budget  int64   // maximum number of simulated steps; 0 = 1<<40
	Chooser Chooser // nil = never pre-empt, lowest task id on forced switches
	// RecordSwitchPairs bounds the number of distinct (preempted site, resumed site) pairs kept.
	RecordSwitchPairs int
	// SelectSeed seeds the choice among several ready clauses of a select; SelectReplay, if non-nil,
	// dictates the choices instead (in order; exhausted = first ready clause).
	SelectSeed   uint64
	SelectReplay []int
	// TraceLog, if true, keeps the full switch log (task, site, next task, step) for debugging.
	TraceLog bool
	// NsPerStep is the number of simulated nanoseconds one step takes (0 = 1000): the speed of the
	// simulated machine relative to the timeouts in the code under test.
	NsPerStep int64
}

// LeakInfo describes a task that is alive and disabled.
type LeakInfo struct {
	Task      int    `json:"task"`
	Name      string `json:"name"`
	SpawnSite int    `json:"spawn_site"`
	BlockSite int    `json:"block_site"`
	BlockOp   string `json:"block_op"`
}

// TaskPanic is a panic that terminated a task other than through the abort sentinel.
type TaskPanic struct {
	Task  int    `json:"task"`
	Name  string `json:"name"`
	Value string `json:"value"`
	Stack string `json:"stack"`
}

// Decision is one non-default scheduling choice: at simulated step Step, run task Task.
type Decision struct {
	Step int64 `json:"s"`
	Task int   `json:"t"`
}

// Result is what one simulated run did.
type Result struct {
	Steps       int64
	Switches    int64
	Points      int64 // scheduling points (requests handled)
	TraceHash   uint64
	Tasks       int
	Deadlock    bool
	Budget      bool
	Diverged    bool       // replay chooser asked for a task that was not runnable
	Blocked     []LeakInfo // at deadlock: who was blocked where
	Leaks       []LeakInfo // alive and disabled when the simulation ended (after main returned)
	MainPanic   *TaskPanic
	TaskPanics  []TaskPanic
	Decisions   []Decision
	SwitchPairs map[[2]int32]int
	ChanOps     int64
	Rendezvous  int64
	AbortSite   int // site at which the run was aborted (budget), 0 if unknown
	Trace       [][4]int64
	// SelectChoices are the choices made among several ready clauses of select statements.
	SelectChoices []int
	// the simulated clock: time covered, jumps over idle periods, reads, timers armed and fired
	SimNanos    int64
	ClockJumps  int64
	ClockReads  int64
	TimersArmed int64
	TimersFired int64
}

type abortPanic struct{}

func (abortPanic) Error() string { return "simrt: run aborted (budget exceeded or deadlock)" }

// abortTask unwinds the calling task of an aborted run.  The first sentinel panics are ordinary
// panics (the code under test may recover them and return errors upward, which is the quick way
// out); a task that is still running after a hundred of them leaves through runtime.Goexit,
// which runs the deferred functions but cannot be recovered or re-raised: code that wraps every
// call level in a recover-and-panic-again handler makes panic unwinding quadratic in the stack
// depth, and a change that makes templates recurse without bound is exactly the case in which
// the stack is hundreds of thousands of frames deep when the step budget runs out.
//
//go:norace
func abortTask(s *Sim) {
	if t := s.current; t != nil {
		t.abortPanics++
		if t.abortPanics > 100 {
			t.exiting = true
			runtime.Goexit()
		}
	}
	panic(abortPanic{})
}

// IsAbort reports whether v (a recovered panic value or an error) is, or wraps, the sentinel
// that the simulator raises in every task once a run has been aborted.
func IsAbort(v interface{}) bool {
	_, ok := v.(abortPanic)
	return ok
}

type reqKind uint8

const (
	reqYield reqKind = iota
	reqSpawn
	reqExit
	reqMainDone
	reqSend
	reqRecv
	reqClose
	reqOpDone
	reqIdle
	reqBlockForever
	reqLockFail
	reqUnlock
	reqSelect
	reqWgWait
	reqWgDone
	reqSleep
	reqWake
	reqCondWait
	reqCondSignal
)

var kindName = [...]string{"yield", "spawn", "exit", "maindone", "send", "recv", "close", "opdone", "idle", "nilchan", "lock", "unlock", "select", "wgwait", "wgdone", "sleep", "wake", "condwait", "condsignal"}

type request struct {
	kind  reqKind
	t     *task
	child *task
	ch    uintptr
	ref   interface{} // the channel itself: keeps it alive so that its address is not reused within a run
	cap   int
	site  int
	pv    *TaskPanic
	cases []selCaseReq // select
	dflt  bool         // select has a default clause
	until int64        // sleep: simulated time (ns) at which the task is enabled again
	all   bool         // condsignal: Broadcast
	lock  uintptr      // condwait: the mutex released by the same step
}

// selCaseReq is one communication clause of a select as the scheduler sees it.
type selCaseReq struct {
	kind reqKind // reqSend or reqRecv
	ch   uintptr
	cap  int
	ref  interface{}
}

const (
	modeProceed = iota
	modeNeedDone
)

type resumeMsg struct {
	abort bool
	mode  int
	sel   int // select: index of the clause that was chosen (-1 = default)
}

type taskState uint8

const (
	stRunnable taskState = iota
	stBlocked
	stIdle
	stDone
)

type task struct {
	id          int
	name        string
	resume      chan resumeMsg
	state       taskState
	isMain      bool
	spawnSite   int
	lastSite    int
	blockCh     uintptr
	blockKind   reqKind
	blockSite   int
	wakeMode    int
	prio        int64
	sel         []selCaseReq // non-nil while blocked in a select
	selIdx      int
	wakeAt      int64   // blocked in reqSleep: simulated time (ns) of the wake-up
	timer       bool    // the task behind a simulated timer
	daemon      bool    // the task behind a simulated ticker: never counted as left behind
	tickCh      uintptr // its channel
	waitSeq     int64   // blocked in reqCondWait: arrival order
	grace       int     // yields that pass without a sentinel panic while the task is being aborted
	abortPanics int     // sentinel panics raised in this task
	exiting     bool    // the task leaves through runtime.Goexit
}

type chanState struct {
	ref        interface{}
	cap, count int
	closed     bool
	sendq      []*task
	recvq      []*task
}

// Sim is one simulated run.
type Sim struct {
	cfg  Config
	req  chan request
	done chan struct{}

	// hot fields, touched by the running task in //go:norace code
	steps     int64
	nextStop  int64
	budget    int64
	aborted   bool
	nopreempt int
	quiet     int // >0: yields neither advance time nor switch (simulator-internal callbacks into instrumented code)
	current   *task
	nsPerStep int64 // simulated nanoseconds per step
	clockJump int64 // nanoseconds added by jumps to the next wake-up when nothing could run
	// clock statistics (touched under the baton)
	clockReads  int64
	timersArmed int64
	timersFired int64

	// scheduler-owned
	tasks        []*task
	chans        map[uintptr]*chanState
	chooser      Chooser
	res          Result
	pendingDone  int
	rvFrom       *task
	avoid        *task
	lockRetries  int
	selRNG       *RNG
	selReplayPos int
	afterDone    []*task
	mainDone     bool
	finished     bool
	abortQueue   []*task
	aborting     *task
	idleInfo     []LeakInfo
	runnableBuf  []*task
	sleepers     int
	clockJumps   int64
	condSeq      int64
	jumpHorizon  int64 // once main is idle or done: no jumps beyond this simulated time
}

var cur *Sim

// RequireSim makes it an error for instrumented code to start a goroutine while no simulation
// is running.  A harness whose process runs simulations sets it: a goroutine started outside
// would otherwise still be running, unowned, when the next simulation begins.
var RequireSim bool

//go:norace
func getCur() *Sim { return cur }

//go:norace
func setCur(s *Sim) { cur = s }

// Active reports whether a simulation is running in this process.
//
//go:norace
func Active() bool { return cur != nil }

// Steps returns the simulated time of the running simulation (0 if none).
//
//go:norace
func Steps() int64 {
	if s := cur; s != nil {
		return s.steps
	}
	return 0
}

// Run executes mainFn as task 0 of a new simulation and returns when mainFn has returned
// and every other task has finished, is permanently disabled, or was aborted.
func Run(cfg Config, mainFn func()) *Result {
	if getCur() != nil {
		panic("simrt: nested Run")
	}
	s := &Sim{cfg: cfg, req: make(chan request), done: make(chan struct{}), chans: map[uintptr]*chanState{}}
	s.budget = cfg.Budget
	if s.budget <= 0 {
		s.budget = 1 << 40
	}
	s.chooser = cfg.Chooser
	if s.chooser == nil {
		s.chooser = NoPreempt{}
	}
	if cfg.RecordSwitchPairs > 0 {
		s.res.SwitchPairs = map[[2]int32]int{}
	}
	resetPools()
	resetTimers()
	resetTickers()
	pendingWriters = nil
	s.nsPerStep = cfg.NsPerStep
	if s.nsPerStep <= 0 {
		s.nsPerStep = defaultNsPerStep
	}
	main := &task{id: 0, name: "main", resume: make(chan resumeMsg, 1), isMain: true}
	s.tasks = []*task{main}
	s.current = main
	s.chooser.TaskCreated(0, 0)
	s.setNextStop()
	setCur(s)
	go schedLoop(s)
	// the main task has a goroutine of its own (it may have to leave through runtime.Goexit); its
	// end is a visible synchronisation, so everything mainFn wrote happens-before Run returns
	mainExited := make(chan struct{})
	go func() {
		defer close(mainExited)
		runMain(s, main, mainFn)
	}()
	<-s.done // visible synchronisation: everything the scheduler wrote happens-before here
	<-mainExited
	setCur(nil)
	s.res.Steps = s.steps
	s.res.Tasks = len(s.tasks)
	s.res.SimNanos = s.nowNs()
	s.res.ClockJumps = s.clockJumps
	s.res.ClockReads, s.res.TimersArmed, s.res.TimersFired = s.clockReads, s.timersArmed, s.timersFired
	return &s.res
}

//go:norace
func runMain(s *Sim, main *task, fn func()) {
	defer mainExit(s, main)
	fn()
}

//go:norace
func mainExit(s *Sim, main *task) {
	var pv *TaskPanic
	if r := recover(); r != nil {
		if !IsAbort(r) {
			pv = &TaskPanic{Task: 0, Name: "main", Value: fmt.Sprint(r), Stack: string(debug.Stack())}
		}
	}
	s.steps++
	raceDisable()
	s.req <- request{kind: reqMainDone, t: main, pv: pv}
	raceEnable()
}

// Yield is one tick of simulated time and a point at which the scheduler may switch tasks.
//
//go:norace
func Yield(site int) {
	s := cur
	if s == nil || s.quiet > 0 {
		return
	}
	s.steps++
	if s.steps < s.nextStop {
		return
	}
	yieldSlow(s, site)
}

//go:norace
func yieldSlow(s *Sim, site int) {
	if s.aborted {
		// A task being unwound gets a few free yields after every sentinel panic: deferred functions
		// of the code under test start with a yield of their own (before their recover), and a panic
		// raised there while the previous one is still in flight nests; ten thousand frames deep that
		// makes the Go runtime's unwinding quadratic (a seeded change with unbounded template
		// recursion took longer than the watchdog allows to abort).
		if t := s.current; t != nil {
			if t.exiting {
				return // deferred functions run to their end while the goroutine exits
			}
			if t.grace > 0 {
				t.grace--
				return
			}
			t.grace = 64
		}
		abortTask(s)
	}
	if s.nopreempt > 0 && s.steps < s.budget {
		return
	}
	s.call(request{kind: reqYield, t: s.current, site: site})
}

//go:norace
func (s *Sim) call(r request) resumeMsg {
	t := r.t
	raceDisable()
	s.req <- r
	m := <-t.resume
	raceEnable()
	if m.abort {
		abortTask(s)
	}
	return m
}

// Go starts f as a new task.  The goroutine is created by the calling task, so the race
// detector sees the same fork edge as for the `go` statement this call replaces.
//
//go:norace
func Go(site int, f func()) {
	s := cur
	if s == nil {
		if RequireSim {
			panic("simrt: instrumented code started a goroutine outside a simulation (harness error: wrap the call in simrt.Run)")
		}
		go f()
		return
	}
	if s.aborted {
		abortTask(s)
	}
	child := &task{resume: make(chan resumeMsg, 1), spawnSite: site}
	go taskMain(s, child, f)
	s.steps++
	s.call(request{kind: reqSpawn, t: s.current, child: child, site: site})
}

// Spawn is Go for harness code: it starts a named client task.
//
//go:norace
func Spawn(name string, f func()) {
	s := cur
	if s == nil {
		panic("simrt: Spawn outside Run")
	}
	if s.aborted {
		abortTask(s)
	}
	child := &task{resume: make(chan resumeMsg, 1), spawnSite: -1, name: name}
	go taskMain(s, child, f)
	s.steps++
	s.call(request{kind: reqSpawn, t: s.current, child: child, site: -1})
}

//go:norace
func taskMain(s *Sim, t *task, f func()) {
	raceDisable()
	m := <-t.resume
	raceEnable()
	if m.abort {
		raceDisable()
		s.req <- request{kind: reqExit, t: t}
		raceEnable()
		return
	}
	defer taskExit(s, t)
	f()
}

//go:norace
func taskExit(s *Sim, t *task) {
	var pv *TaskPanic
	if r := recover(); r != nil {
		if !IsAbort(r) {
			pv = &TaskPanic{Task: t.id, Name: t.name, Value: fmt.Sprint(r), Stack: string(debug.Stack())}
		}
	}
	s.steps++
	raceDisable()
	s.req <- request{kind: reqExit, t: t, pv: pv}
	raceEnable()
}

// ExtendBudget sets the step budget of the running simulation to n steps from now.  A
// harness that runs several operations in one simulation gives each its own allowance.
//
//go:norace
func ExtendBudget(n int64) {
	s := cur
	if s == nil {
		return
	}
	if s.aborted {
		abortTask(s)
	}
	s.budget = s.steps + n
	if s.nextStop > s.budget || s.nextStop == 0 {
		s.nextStop = s.budget
	}
}

// Idle blocks the calling task (normally main) until no other task is runnable and returns
// the tasks that are alive and disabled at that moment.
//
//go:norace
func Idle() []LeakInfo {
	s := cur
	if s == nil {
		return nil
	}
	if s.aborted {
		abortTask(s)
	}
	s.steps++
	s.call(request{kind: reqIdle, t: s.current})
	return s.idleInfo
}

// quietly runs f with the step clock stopped: the simulator itself calls back into instrumented
// code (String and Position methods of map keys while ordering them), in an order that follows
// Go's native map iteration; those calls must leave no trace in simulated time or in the schedule.
//
//go:norace
func quietly(f func()) {
	s := cur
	if s == nil {
		f()
		return
	}
	s.quiet++
	defer endQuiet(s)
	f()
}

//go:norace
func endQuiet(s *Sim) { s.quiet-- }

// Atomically runs f with pre-emption disabled (blocking operations still switch).
//
//go:norace
func Atomically(f func()) {
	s := cur
	if s == nil {
		f()
		return
	}
	s.nopreempt++
	defer endNoPreempt(s)
	f()
}

//go:norace
func endNoPreempt(s *Sim) { s.nopreempt-- }

// ---- channel enabledness model (DESIGN.md appendix B) -------------------------------

func chanID[T any](c chan T) uintptr       { return *(*uintptr)(unsafe.Pointer(&c)) }
func chanIDSend[T any](c chan<- T) uintptr { return *(*uintptr)(unsafe.Pointer(&c)) }
func chanIDRecv[T any](c <-chan T) uintptr { return *(*uintptr)(unsafe.Pointer(&c)) }

// Send replaces `c <- v`.
func Send[T any](c chan<- T, v T, site int) {
	s := getCur()
	if s == nil {
		c <- v
		return
	}
	mode := before(s, reqSend, chanIDSend(c), cap(c), site, c)
	c <- v
	after(s, mode)
}

// Recv replaces `<-c`.
func Recv[T any](c <-chan T, site int) T {
	s := getCur()
	if s == nil {
		return <-c
	}
	mode := before(s, reqRecv, chanIDRecv(c), cap(c), site, c)
	v := <-c
	after(s, mode)
	return v
}

// Recv2 replaces `v, ok := <-c`.
func Recv2[T any](c <-chan T, site int) (T, bool) {
	s := getCur()
	if s == nil {
		v, ok := <-c
		return v, ok
	}
	mode := before(s, reqRecv, chanIDRecv(c), cap(c), site, c)
	v, ok := <-c
	after(s, mode)
	return v, ok
}

// Close replaces `close(c)`.
func Close[T any](c chan<- T, site int) {
	s := getCur()
	if s == nil {
		close(c)
		return
	}
	if isAborted(s) {
		abortTask(s)
	}
	close(c) // never blocks; panics exactly as in Go if c is nil or closed
	notifyClose(s, chanIDSend(c), site, c)
}

//go:norace
func isAborted(s *Sim) bool { return s.aborted }

//go:norace
func notifyClose(s *Sim, ch uintptr, site int, ref interface{}) {
	s.steps++
	s.call(request{kind: reqClose, t: s.current, ch: ch, site: site, ref: ref})
}

//go:norace
func before(s *Sim, kind reqKind, ch uintptr, capacity int, site int, ref interface{}) int {
	if s.aborted {
		abortTask(s)
	}
	t := s.current
	s.steps++
	if ch == 0 {
		s.call(request{kind: reqBlockForever, t: t, site: site})
		panic("simrt: unreachable")
	}
	m := s.call(request{kind: kind, t: t, ch: ch, cap: capacity, site: site, ref: ref})
	// after a wake-up the baton holder is this task again; s.current was set by the scheduler,
	// except during a rendezvous, when two tasks run momentarily and s.current is not consulted.
	if m.mode == modeNeedDone {
		return modeNeedDone | (t.id+1)<<8
	}
	return modeProceed
}

//go:norace
func after(s *Sim, mode int) {
	if mode&0xff != modeNeedDone {
		return
	}
	id := mode>>8 - 1
	t := s.tasks[id]
	s.call(request{kind: reqOpDone, t: t})
}

// ---- locks ---------------------------------------------------------------------------

type tryLocker interface {
	TryLock() bool
	Lock()
}

// Lock replaces mu.Lock() for sync.Mutex and sync.RWMutex values.  A task that does not get the
// lock is disabled until some task unlocks that mutex (Unlock / RUnlock are rewritten too), so a
// strategy that always prefers the waiting task cannot spin for ever on a lock whose holder is
// parked.
func Lock(mu tryLocker, site int) {
	s := getCur()
	if s == nil {
		mu.Lock()
		return
	}
	if !mu.TryLock() {
		// a writer that waits keeps new readers out (sync.RWMutex: a blocked Lock excludes new
		// RLocks, so a task that read-locks twice deadlocks against a writer in between)
		key := lockKey(mu)
		pendingWriter(key, 1)
		defer pendingWriter(key, -1)
		for !mu.TryLock() {
			lockFail(s, key, site)
		}
	}
	acquired(s, site)
}

// pendingWriters counts, per mutex, the tasks blocked in Lock (slice searched linearly, touched
// under the baton only).
var pendingWriters []struct {
	key uintptr
	n   int
}

//go:norace
func pendingWriter(key uintptr, d int) {
	for i := range pendingWriters {
		if pendingWriters[i].key == key {
			pendingWriters[i].n += d
			if pendingWriters[i].n <= 0 {
				last := len(pendingWriters) - 1
				pendingWriters[i] = pendingWriters[last]
				pendingWriters = pendingWriters[:last]
			}
			return
		}
	}
	if d > 0 {
		pendingWriters = append(pendingWriters, struct {
			key uintptr
			n   int
		}{key, d})
	}
}

//go:norace
func writerPending(key uintptr) bool {
	for i := range pendingWriters {
		if pendingWriters[i].key == key {
			return true
		}
	}
	return false
}

type tryRLocker interface {
	TryRLock() bool
	RLock()
}

// RLock replaces mu.RLock().
func RLock(mu tryRLocker, site int) {
	s := getCur()
	if s == nil {
		mu.RLock()
		return
	}
	key := lockKey(mu)
	for writerPending(key) || !mu.TryRLock() {
		lockFail(s, key, site)
	}
	acquired(s, site)
}

type unlocker interface{ Unlock() }
type runlocker interface{ RUnlock() }

// Unlock replaces mu.Unlock(): the real unlock, then the scheduler wakes the tasks waiting for mu.
func Unlock(mu unlocker, site int) {
	mu.Unlock()
	if s := getCur(); s != nil {
		unlocked(s, lockKey(mu), site)
	}
}

// RUnlock replaces mu.RUnlock().
func RUnlock(mu runlocker, site int) {
	mu.RUnlock()
	if s := getCur(); s != nil {
		unlocked(s, lockKey(mu), site)
	}
}

// lockKey is the address of the mutex (the interface holds a pointer to it).
func lockKey(mu interface{}) uintptr {
	type iface struct{ typ, data unsafe.Pointer }
	return uintptr((*iface)(unsafe.Pointer(&mu)).data)
}

// acquired is a scheduling point right after a lock has been taken: the interesting
// interleavings of lock-protected code are those in which another task runs while the lock is
// held (a read lock shared by a second reader, a lock that protects too little), and the
// detector can only report accesses inside two overlapping critical sections if they do overlap
// in the serial execution - the atomics inside the mutex order non-overlapping sections.
//
//go:norace
func acquired(s *Sim, site int) {
	if s.aborted || s.nopreempt > 0 {
		return
	}
	s.steps++
	s.call(request{kind: reqYield, t: s.current, site: site})
}

//go:norace
func lockFail(s *Sim, key uintptr, site int) {
	if s.aborted {
		abortTask(s)
	}
	s.steps++
	s.call(request{kind: reqLockFail, t: s.current, ch: key, site: site})
}

//go:norace
func unlocked(s *Sim, key uintptr, site int) {
	if s.aborted {
		return // unwinding: deferred unlocks must still run quietly
	}
	s.steps++
	s.call(request{kind: reqUnlock, t: s.current, ch: key, site: site})
}

type doer interface{ Do(func()) }

// OnceDo replaces once.Do(f): f runs with pre-emption disabled, so that no other task can
// block for real on the Once while its holder is parked.
func OnceDo(once doer, f func()) {
	Atomically(func() { once.Do(f) })
}

// ---- scheduler -------------------------------------------------------------------------

//go:norace
func schedLoop(s *Sim) {
	raceDisable()
	for !s.finished {
		r := <-s.req
		s.handle(r)
	}
	s.res.Decisions = s.chooser.Decisions()
	raceEnable()
	close(s.done)
}

//go:norace
func (s *Sim) chanOf(id uintptr, capacity int, ref interface{}) *chanState {
	c := s.chans[id]
	if c == nil {
		c = &chanState{cap: capacity, ref: ref}
		s.chans[id] = c
	}
	return c
}

//go:norace
func (s *Sim) block(t *task, kind reqKind, ch uintptr, site int) {
	t.state = stBlocked
	t.blockKind = kind
	t.blockCh = ch
	t.blockSite = site
}

//go:norace
func (s *Sim) handle(r request) {
	s.res.Points++
	t := r.t
	if r.kind != reqLockFail {
		s.lockRetries = 0
	}
	if r.site != 0 || r.kind == reqYield {
		t.lastSite = r.site
	}
	if s.aborting != nil {
		// only exits are expected while aborting
		switch r.kind {
		case reqExit, reqMainDone:
			s.noteExit(r)
			s.abortNext()
		default:
			// a task being aborted must not issue further requests; reply abort again
			t.resume <- resumeMsg{abort: true}
		}
		return
	}
	switch r.kind {
	case reqYield:
		s.schedule(t, false)
	case reqLockFail:
		// disabled until the mutex is unlocked (or, as a safety net for an unlock the rewriter did not
		// see, until nothing else can run: see schedule)
		s.block(t, reqLockFail, r.ch, r.site)
		s.schedule(nil, true)
	case reqWgWait:
		// disabled until the counter of that WaitGroup reaches zero
		s.block(t, reqWgWait, r.ch, r.site)
		s.schedule(nil, true)
	case reqSleep:
		if r.until <= s.nowNs() {
			s.schedule(t, false)
			break
		}
		s.block(t, reqSleep, 0, r.site)
		t.wakeAt = r.until
		s.sleepers++
		s.schedule(nil, true)
	case reqWake:
		if c := r.child; c != nil && c.state == stBlocked && c.blockKind == reqSleep {
			c.wakeAt = -1 << 62
		}
		s.schedule(t, false)
	case reqCondWait:
		// the lock is released and the task joins the waiters in one step (a Signal between the
		// two would be lost, which the real Cond rules out by enlisting before it unlocks)
		for _, p := range s.tasks {
			if p.state == stBlocked && p.blockKind == reqLockFail && p.blockCh == r.lock {
				p.state = stRunnable
				p.wakeMode = modeProceed
			}
		}
		s.block(t, reqCondWait, r.ch, r.site)
		s.condSeq++
		t.waitSeq = s.condSeq
		s.schedule(nil, true)
	case reqCondSignal:
		// Signal wakes the longest waiter, Broadcast all of them
		for {
			var first *task
			for _, p := range s.tasks {
				if p.state == stBlocked && p.blockKind == reqCondWait && p.blockCh == r.ch && (first == nil || p.waitSeq < first.waitSeq) {
					first = p
				}
			}
			if first == nil {
				break
			}
			first.state = stRunnable
			first.wakeMode = modeProceed
			if !r.all {
				break
			}
		}
		s.schedule(t, false)
	case reqWgDone:
		for _, p := range s.tasks {
			if p.state == stBlocked && p.blockKind == reqWgWait && p.blockCh == r.ch {
				p.state = stRunnable
				p.wakeMode = modeProceed
			}
		}
		s.schedule(t, false)
	case reqUnlock:
		for _, p := range s.tasks {
			if p.state == stBlocked && p.blockKind == reqLockFail && p.blockCh == r.ch {
				p.state = stRunnable
				p.wakeMode = modeProceed
			}
		}
		s.schedule(t, false)
	case reqSpawn:
		c := r.child
		c.id = len(s.tasks)
		if c.name == "" {
			c.name = "go@" + strconv.Itoa(c.spawnSite)
		}
		c.lastSite = c.spawnSite
		s.tasks = append(s.tasks, c)
		s.chooser.TaskCreated(c.id, s.steps)
		s.schedule(t, false)
	case reqExit, reqMainDone:
		s.noteExit(r)
		s.schedule(nil, true)
	case reqIdle:
		t.state = stIdle
		s.schedule(nil, true)
	case reqBlockForever:
		s.block(t, r.kind, 0, r.site)
		s.schedule(nil, true)
	case reqSend, reqRecv:
		s.res.ChanOps++
		if !s.chanOp(t, r.kind, r.ch, r.cap, r.ref) {
			c := s.chanOf(r.ch, r.cap, r.ref)
			if r.kind == reqSend {
				c.sendq = append(c.sendq, t)
			} else {
				c.recvq = append(c.recvq, t)
			}
			s.block(t, r.kind, r.ch, r.site)
			s.schedule(nil, true)
		}
	case reqSelect:
		s.res.ChanOps++
		var ready []int
		for i, cs := range r.cases {
			if cs.ch == 0 {
				continue
			}
			c := s.chanOf(cs.ch, cs.cap, cs.ref)
			if cs.kind == reqSend && (c.closed || s.live(&c.recvq, cs.ch, reqRecv) || c.count < c.cap) {
				ready = append(ready, i)
			}
			if cs.kind == reqRecv && (c.count > 0 || s.live(&c.sendq, cs.ch, reqSend) || c.closed) {
				ready = append(ready, i)
			}
		}
		switch {
		case len(ready) > 0:
			// Go picks uniformly among the ready clauses; here the run's PRNG does
			i := ready[0]
			if len(ready) > 1 {
				i = ready[s.selChoice(len(ready))]
			}
			t.selIdx = i
			cs := r.cases[i]
			if !s.chanOp(t, cs.kind, cs.ch, cs.cap, cs.ref) {
				panic("simrt: a ready select clause blocked")
			}
		case r.dflt:
			t.selIdx = -1
			t.wakeMode = modeProceed
			s.schedule(t, false)
		default:
			t.sel = r.cases
			for _, cs := range r.cases {
				if cs.ch == 0 {
					continue
				}
				c := s.chanOf(cs.ch, cs.cap, cs.ref)
				if cs.kind == reqSend {
					c.sendq = append(c.sendq, t)
				} else {
					c.recvq = append(c.recvq, t)
				}
			}
			s.block(t, reqSelect, 0, r.site)
			s.schedule(nil, true)
		}
	case reqClose:
		s.res.ChanOps++
		c := s.chanOf(r.ch, r.cap, r.ref)
		c.closed = true
		for p := s.pop(&c.recvq, r.ch, reqRecv); p != nil; p = s.pop(&c.recvq, r.ch, reqRecv) {
			p.state = stRunnable
			p.wakeMode = modeProceed
		}
		for p := s.pop(&c.sendq, r.ch, reqSend); p != nil; p = s.pop(&c.sendq, r.ch, reqSend) {
			p.state = stRunnable
			p.wakeMode = modeProceed
		}
		s.schedule(t, false)
	case reqOpDone:
		s.pendingDone--
		if s.pendingDone == 0 {
			if len(s.afterDone) > 0 {
				// a sender that was blocked on a full buffer completes its send right after the
				// receive that freed the slot, as the Go runtime does
				p := s.afterDone[0]
				s.afterDone = s.afterDone[1:]
				p.state = stRunnable
				s.pendingDone = 1
				s.current = p
				p.resume <- resumeMsg{mode: modeNeedDone, sel: p.selIdx}
				return
			}
			from := s.rvFrom
			s.rvFrom = nil
			s.schedule(from, false)
		}
	}
}

//go:norace
func (s *Sim) noteExit(r request) {
	t := r.t
	t.state = stDone
	if r.kind == reqMainDone {
		s.mainDone = true
		if r.pv != nil {
			s.res.MainPanic = r.pv
		}
	} else if r.pv != nil {
		s.res.TaskPanics = append(s.res.TaskPanics, *r.pv)
	}
}

// waits reports whether p is blocked on (ch, kind), as a plain operation or as a select clause.
//
//go:norace
func waits(p *task, ch uintptr, kind reqKind) int {
	if p.state != stBlocked {
		return -2
	}
	if p.sel == nil {
		if p.blockKind == kind && p.blockCh == ch {
			return -1
		}
		return -2
	}
	for i, cs := range p.sel {
		if cs.kind == kind && cs.ch == ch {
			return i
		}
	}
	return -2
}

// live prunes stale entries from the head of q and reports whether a task still waits there.
//
//go:norace
func (s *Sim) live(q *[]*task, ch uintptr, kind reqKind) bool {
	for len(*q) > 0 && waits((*q)[0], ch, kind) == -2 {
		*q = (*q)[1:]
	}
	return len(*q) > 0
}

// pop removes and returns the first task waiting on (ch, kind); a select waiter is resolved to
// that clause (its entries in other queues become stale).
//
//go:norace
func (s *Sim) pop(q *[]*task, ch uintptr, kind reqKind) *task {
	if !s.live(q, ch, kind) {
		return nil
	}
	p := (*q)[0]
	*q = (*q)[1:]
	if i := waits(p, ch, kind); i >= 0 {
		p.selIdx = i
		p.sel = nil
		p.blockKind, p.blockCh = kind, ch
	}
	return p
}

// chanOp performs the model side of a send or receive by t; it returns false if t has to wait.
//
//go:norace
func (s *Sim) chanOp(t *task, kind reqKind, ch uintptr, capacity int, ref interface{}) bool {
	c := s.chanOf(ch, capacity, ref)
	if kind == reqSend {
		switch {
		case c.closed:
			s.proceedNow(t)
		case s.live(&c.recvq, ch, reqRecv):
			p := s.pop(&c.recvq, ch, reqRecv)
			s.rvFrom = t
			s.rendezvous(t, p)
		case c.count < c.cap:
			c.count++
			s.proceedNow(t)
		default:
			return false
		}
		return true
	}
	switch {
	case c.count > 0:
		c.count--
		if s.live(&c.sendq, ch, reqSend) {
			// a blocked sender gets the freed slot, but may only run once the receive happened
			p := s.pop(&c.sendq, ch, reqSend)
			c.count++
			s.afterDone = append(s.afterDone, p)
		}
		s.proceedNow(t)
	case s.live(&c.sendq, ch, reqSend):
		p := s.pop(&c.sendq, ch, reqSend)
		s.rvFrom = t
		s.rendezvous(p, t)
	case c.closed:
		s.proceedNow(t)
	default:
		return false
	}
	return true
}

// selChoice draws which of n ready select clauses is taken.
//
//go:norace
func (s *Sim) selChoice(n int) int {
	if s.selReplayPos < len(s.cfg.SelectReplay) {
		i := s.cfg.SelectReplay[s.selReplayPos]
		s.selReplayPos++
		if i >= 0 && i < n {
			s.res.SelectChoices = append(s.res.SelectChoices, i)
			return i
		}
	}
	if s.selRNG == nil {
		s.selRNG = NewRNG(s.cfg.SelectSeed ^ 0x5e1ec7)
	}
	i := 0
	if s.cfg.SelectReplay == nil {
		i = s.selRNG.Intn(n)
	}
	s.res.SelectChoices = append(s.res.SelectChoices, i)
	return i
}

// proceedNow lets t perform its real (non-blocking) channel operation immediately and report
// completion before anything else is scheduled, so that the model and the real channel never
// disagree while another task runs.
//
//go:norace
func (s *Sim) proceedNow(t *task) {
	s.pendingDone = 1
	s.rvFrom = t
	s.current = t
	t.resume <- resumeMsg{mode: modeNeedDone, sel: t.selIdx}
}

// rendezvous lets sender snd and receiver rcv perform their real channel operations now; both
// report completion before anything else is scheduled.
//
//go:norace
func (s *Sim) rendezvous(snd, rcv *task) {
	s.res.Rendezvous++
	snd.state, rcv.state = stRunnable, stRunnable
	s.pendingDone = 2
	snd.resume <- resumeMsg{mode: modeNeedDone, sel: snd.selIdx}
	rcv.resume <- resumeMsg{mode: modeNeedDone, sel: rcv.selIdx}
}

//go:norace
func (s *Sim) setNextStop() {
	n := s.chooser.NextPreempt(s.steps)
	if n <= 0 || n > s.budget {
		n = s.budget
	}
	s.nextStop = n
}

//go:norace
func (s *Sim) leakInfos() []LeakInfo {
	var out []LeakInfo
	for _, t := range s.tasks {
		if t.state == stBlocked && !t.daemon && !t.timer {
			out = append(out, LeakInfo{Task: t.id, Name: t.name, SpawnSite: t.spawnSite, BlockSite: t.blockSite, BlockOp: kindName[t.blockKind]})
		}
	}
	return out
}

// schedule picks and resumes the next task.  from is the requesting task if it is still
// runnable (nil otherwise).
//
//go:norace
func (s *Sim) schedule(from *task, forced bool) {
	if s.pendingDone > 0 {
		return
	}
	if s.steps >= s.budget {
		s.res.Budget = true
		if from != nil {
			s.res.AbortSite = from.lastSite
		} else if s.current != nil {
			s.res.AbortSite = s.current.lastSite
		}
		s.res.Blocked = s.leakInfos()
		s.beginAbort(from)
		return
	}
	if s.sleepers > 0 {
		s.wakeDue()
	}
	run := s.runnableBuf[:0]
	for _, t := range s.tasks {
		if t.state == stRunnable {
			run = append(run, t)
		}
	}
	s.runnableBuf = run
	if len(run) == 0 && s.sleepers > 0 {
		// nothing can run before the next wake-up: the clock jumps to it (discrete-event time).
		// Once the main task is idle or done the jumps stop at a horizon of one simulated hour:
		// whoever is still asleep or ticking then has been left behind.  A ticker nobody listens
		// to never moves the clock.
		horizon := int64(1<<62 - 1)
		if s.mainDone || s.mainIdle() {
			if s.jumpHorizon == 0 {
				s.jumpHorizon = s.nowNs() + int64(3600e9)
			}
			horizon = s.jumpHorizon
		} else {
			s.jumpHorizon = 0
		}
		next := int64(1<<62 - 1)
		for _, t := range s.tasks {
			if t.state == stBlocked && t.blockKind == reqSleep && t.wakeAt < next && (!t.daemon || s.listenedTo(t)) {
				next = t.wakeAt
			}
		}
		if next <= horizon {
			if d := next - s.nowNs(); d > 0 {
				s.clockJump += d
				s.clockJumps++
			}
			s.schedule(from, forced)
			return
		}
	}
	if len(run) == 0 && s.lockRetries < 3 {
		// lock waiters retry before quiescence is declared: their mutex may have been released by code
		// the rewriter did not see
		woke := false
		for _, t := range s.tasks {
			if t.state == stBlocked && t.blockKind == reqLockFail {
				t.state = stRunnable
				t.wakeMode = modeProceed
				woke = true
			}
		}
		if woke {
			s.lockRetries++
			s.schedule(from, forced)
			return
		}
	}
	if len(run) == 0 {
		// quiescence
		var idle *task
		for _, t := range s.tasks {
			if t.state == stIdle {
				idle = t
				break
			}
		}
		switch {
		case idle != nil:
			s.idleInfo = s.leakInfos()
			idle.state = stRunnable
			s.resume(nil, idle)
		case s.mainDone:
			s.res.Leaks = s.leakInfos()
			s.beginAbort(nil)
		default:
			s.res.Deadlock = true
			s.res.Blocked = s.leakInfos()
			s.beginAbort(nil)
		}
		return
	}
	def := run[0]
	if s.avoid != nil && def == s.avoid && len(run) > 1 {
		def = run[1]
	}
	if from != nil && from.state == stRunnable {
		def = from
	}
	next := def
	if len(run) > 1 {
		ids := make([]int, len(run))
		for i, t := range run {
			ids[i] = t.id
		}
		fromID := -1
		if from != nil && from.state == stRunnable {
			fromID = from.id
		}
		id, ok := s.chooser.Choose(s.steps, fromID, ids, def.id)
		if !ok {
			s.res.Diverged = true
			id = def.id
		}
		next = s.tasks[id]
		if next.state != stRunnable {
			s.res.Diverged = true
			next = def
		}
	}
	s.resume(from, next)
}

// mainIdle reports whether the main task waits in Idle.
//
//go:norace
func (s *Sim) mainIdle() bool { return len(s.tasks) > 0 && s.tasks[0].state == stIdle }

// listenedTo reports whether some task is blocked receiving from the channel of ticker task t.
//
//go:norace
func (s *Sim) listenedTo(t *task) bool {
	if t.tickCh == 0 {
		return false
	}
	for _, p := range s.tasks {
		if waits(p, t.tickCh, reqRecv) != -2 {
			return true
		}
	}
	return false
}

// wakeDue enables the sleepers whose time has come.
//
//go:norace
func (s *Sim) wakeDue() {
	now := s.nowNs()
	for _, t := range s.tasks {
		if t.state == stBlocked && t.blockKind == reqSleep && t.wakeAt <= now {
			t.state = stRunnable
			t.wakeMode = modeProceed
			s.sleepers--
		}
	}
}

//go:norace
func (s *Sim) resume(from, next *task) {
	prev := s.current
	if prev != next {
		s.res.Switches++
		ps, pid := 0, -1
		if prev != nil {
			ps, pid = prev.lastSite, prev.id
		}
		if s.cfg.TraceLog {
			s.res.Trace = append(s.res.Trace, [4]int64{int64(pid), int64(ps), int64(next.id), s.steps})
		}
		h := s.res.TraceHash
		h = mix(h ^ uint64(pid+1)<<40 ^ uint64(uint32(ps))<<8 ^ uint64(next.id+1))
		s.res.TraceHash = h
		if s.res.SwitchPairs != nil && len(s.res.SwitchPairs) < s.cfg.RecordSwitchPairs {
			s.res.SwitchPairs[[2]int32{int32(ps), int32(next.lastSite)}]++
		}
	}
	s.current = next
	s.setNextStop()
	m := resumeMsg{mode: next.wakeMode, sel: next.selIdx}
	next.wakeMode = modeProceed
	next.resume <- m
}

//go:norace
func (s *Sim) beginAbort(first *task) {
	s.aborted = true
	s.nextStop = 0
	s.abortQueue = s.abortQueue[:0]
	if first != nil && first.state != stDone {
		s.abortQueue = append(s.abortQueue, first)
	}
	for _, t := range s.tasks {
		if t.state != stDone && t != first {
			s.abortQueue = append(s.abortQueue, t)
		}
	}
	s.abortNext()
}

//go:norace
func (s *Sim) abortNext() {
	for len(s.abortQueue) > 0 {
		t := s.abortQueue[0]
		s.abortQueue = s.abortQueue[1:]
		if t.state == stDone {
			continue
		}
		s.aborting = t
		s.current = t
		t.resume <- resumeMsg{abort: true}
		return
	}
	s.aborting = nil
	s.finished = true
}

func mix(x uint64) uint64 {
	x += 0x9e3779b97f4a7c15
	x = (x ^ (x >> 30)) * 0xbf58476d1ce4e5b9
	x = (x ^ (x >> 27)) * 0x94d049bb133111eb
	return x ^ (x >> 31)
}

// ---- select ------------------------------------------------------------------------------

// SelCase is one communication clause handed to Select by rewritten code.
type SelCase struct {
	req selCaseReq
	do  func()        // performs the real operation of this clause
	rc  reflect.Value // the channel, for the real select outside a simulation
	sv  reflect.Value // send value
	set func(reflect.Value, bool)
}

// CaseSend builds the clause `case c <- v:`.
func CaseSend[T any](c chan<- T, v T) SelCase {
	return SelCase{req: selCaseReq{kind: reqSend, ch: chanIDSend(c), cap: cap(c), ref: c}, do: func() { c <- v },
		rc: reflect.ValueOf(c), sv: reflect.ValueOf(&v).Elem()}
}

// CaseRecv builds the clause `case *p, *ok = <-c:` (p and ok may be nil).
func CaseRecv[T any](c <-chan T, p *T, ok *bool) SelCase {
	store := func(v T, k bool) {
		if p != nil {
			*p = v
		}
		if ok != nil {
			*ok = k
		}
	}
	return SelCase{req: selCaseReq{kind: reqRecv, ch: chanIDRecv(c), cap: cap(c), ref: c}, do: func() { v, k := <-c; store(v, k) },
		rc: reflect.ValueOf(c), set: func(rv reflect.Value, k bool) {
			var v T
			if k && rv.IsValid() {
				v, _ = rv.Interface().(T)
			}
			store(v, k)
		}}
}

// Zero returns the zero value of the element type of c (to declare receive temporaries).
func Zero[T any](c <-chan T) T { var z T; return z }

// Select replaces a select statement: it returns the index of the clause that communicated, or
// -1 for the default clause.
func Select(site int, hasDefault bool, cases ...SelCase) int {
	s := getCur()
	if s == nil {
		// the real thing, outside a simulation
		rcs := make([]reflect.SelectCase, 0, len(cases)+1)
		for _, c := range cases {
			if c.req.kind == reqSend {
				rcs = append(rcs, reflect.SelectCase{Dir: reflect.SelectSend, Chan: c.rc, Send: c.sv})
			} else {
				rcs = append(rcs, reflect.SelectCase{Dir: reflect.SelectRecv, Chan: c.rc})
			}
		}
		if hasDefault {
			rcs = append(rcs, reflect.SelectCase{Dir: reflect.SelectDefault})
		}
		i, rv, ok := reflect.Select(rcs)
		if hasDefault && i == len(cases) {
			return -1
		}
		if cases[i].set != nil {
			cases[i].set(rv, ok)
		}
		return i
	}
	reqs := make([]selCaseReq, len(cases))
	for i, c := range cases {
		reqs[i] = c.req
	}
	idx, mode := selectReq(s, site, hasDefault, reqs)
	if idx >= 0 {
		cases[idx].do()
	}
	after(s, mode)
	return idx
}

//go:norace
func selectReq(s *Sim, site int, hasDefault bool, reqs []selCaseReq) (int, int) {
	if s.aborted {
		abortTask(s)
	}
	t := s.current
	s.steps++
	m := s.call(request{kind: reqSelect, t: t, site: site, cases: reqs, dflt: hasDefault})
	if m.mode == modeNeedDone {
		return m.sel, modeNeedDone | (t.id+1)<<8
	}
	return m.sel, modeProceed
}

// ---- sync.Pool ---------------------------------------------------------------------------

// sync.Pool is a source of nondeterminism of its own (per-P caches, emptied by the garbage
// collector).  Inside a simulation a pool is a LIFO free list per pool: Get returns the most
// recently Put object, or New() if there is none.  The race detector is given exactly the
// happens-before edge sync.Pool provides -- from the Put of an object to the Get that returns
// that object -- and nothing more: the model's own mutex is hidden from it, otherwise every
// pool operation would order the tasks that perform it and hide races elsewhere.

type poolItem struct {
	v   interface{}
	tok byte // address the Put->Get edge is attached to
}

// (Slices searched linearly, not maps: the runtime's map functions report their accesses to the
// race detector even from a norace function.)
type poolEntry struct {
	p     *sync.Pool
	items []*poolItem
}

type poolModel struct {
	mu    sync.Mutex
	pools []*poolEntry
}

var pools = &poolModel{}

//go:norace
func (m *poolModel) entry(p *sync.Pool) *poolEntry {
	for _, e := range m.pools {
		if e.p == p {
			return e
		}
	}
	e := &poolEntry{p: p}
	m.pools = append(m.pools, e)
	return e
}

// PoolGet replaces p.Get().
func PoolGet(p *sync.Pool, site int) interface{} {
	if getCur() == nil {
		return p.Get()
	}
	it := poolPop(p)
	if it != nil {
		raceAcquire(unsafe.Pointer(&it.tok))
		return it.v
	}
	if p.New != nil {
		return p.New()
	}
	return nil
}

//go:norace
func poolPop(p *sync.Pool) *poolItem {
	raceDisable()
	defer raceEnable()
	pools.mu.Lock()
	defer pools.mu.Unlock()
	e := pools.entry(p)
	n := len(e.items)
	if n == 0 {
		return nil
	}
	it := e.items[n-1]
	e.items = e.items[:n-1]
	return it
}

// PoolPut replaces p.Put(x).
func PoolPut(p *sync.Pool, x interface{}, site int) {
	if getCur() == nil {
		p.Put(x)
		return
	}
	if x == nil {
		return
	}
	it := &poolItem{v: x}
	raceReleaseMerge(unsafe.Pointer(&it.tok))
	poolPush(p, it)
}

//go:norace
func poolPush(p *sync.Pool, it *poolItem) {
	raceDisable()
	defer raceEnable()
	pools.mu.Lock()
	e := pools.entry(p)
	e.items = append(e.items, it)
	pools.mu.Unlock()
}

//go:norace
func resetPools() {
	raceDisable()
	defer raceEnable()
	pools.mu.Lock()
	pools.pools = nil
	pools.mu.Unlock()
	wgModel.mu.Lock()
	wgModel.e = nil
	wgModel.mu.Unlock()
}

// ---- sync.WaitGroup ----------------------------------------------------------------------

// A WaitGroup is modelled by a counter per WaitGroup address kept next to the real one: Wait
// disables the task until the counter is zero (then the real Wait returns at once and gives the
// race detector its happens-before edges), Add and Done update both.

type wgEntry struct {
	wg *sync.WaitGroup
	n  int
}

var wgModel struct {
	mu sync.Mutex
	e  []wgEntry
}

// WgAdd replaces wg.Add(n).
func WgAdd(wg *sync.WaitGroup, n int, site int) {
	s := getCur()
	if s != nil {
		zero := wgCount(wg, n) <= 0
		wg.Add(n)
		if zero {
			wgNotify(s, uintptr(unsafe.Pointer(wg)), site)
		}
		return
	}
	wg.Add(n)
}

// WgDone replaces wg.Done().
func WgDone(wg *sync.WaitGroup, site int) { WgAdd(wg, -1, site) }

// WgWait replaces wg.Wait().
func WgWait(wg *sync.WaitGroup, site int) {
	s := getCur()
	if s == nil {
		wg.Wait()
		return
	}
	for wgCount(wg, 0) > 0 {
		wgBlock(s, uintptr(unsafe.Pointer(wg)), site)
	}
	wg.Wait()
}

// wgCount adds d to the model counter of wg and returns it; the model's mutex is hidden from
// the race detector (the real WaitGroup supplies the Done -> Wait edges).
//
//go:norace
func wgCount(wg *sync.WaitGroup, d int) int {
	raceDisable()
	defer raceEnable()
	wgModel.mu.Lock()
	defer wgModel.mu.Unlock()
	for i := range wgModel.e {
		if wgModel.e[i].wg == wg {
			wgModel.e[i].n += d
			n := wgModel.e[i].n
			if n == 0 {
				last := len(wgModel.e) - 1
				wgModel.e[i] = wgModel.e[last]
				wgModel.e = wgModel.e[:last]
			}
			return n
		}
	}
	if d != 0 {
		wgModel.e = append(wgModel.e, wgEntry{wg, d})
	}
	return d
}

//go:norace
func wgBlock(s *Sim, key uintptr, site int) {
	if s.aborted {
		abortTask(s)
	}
	s.steps++
	s.call(request{kind: reqWgWait, t: s.current, ch: key, site: site})
}

//go:norace
func wgNotify(s *Sim, key uintptr, site int) {
	if s.aborted {
		return
	}
	s.steps++
	s.call(request{kind: reqWgDone, t: s.current, ch: key, site: site})
}
