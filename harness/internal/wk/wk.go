// Package wk is the worker side of the driver/worker protocol: flags, JSON-line events,
// deterministic per-unit seeds.
package wk

import (
	"bufio"
	"bytes"
	"encoding/json"
	"flag"
	"fmt"
	"os"
	"os/exec"
	"sort"
	"strings"
	"sync"

	"verif/simrt"
)

// Ctx is what a property implementation gets.
type Ctx struct {
	Prop    string
	Mode    string // run | replay | plan
	Seed    uint64
	Tier    string
	Start   int
	Count   int
	File    string
	Repo    string // snapshot of the tree the binary was built from
	Sites   string
	RaceLog string
	Variant string // plain | inst | race
	Extra   string

	mu  sync.Mutex
	out *bufio.Writer
}

// Failure is a property violation found by a worker.
type Failure struct {
	Class  string          `json:"class"`
	Site   string          `json:"site"`
	Detail string          `json:"detail"`
	Replay json.RawMessage `json:"replay,omitempty"`
}

// Unit is the result of one work unit.
type Unit struct {
	Ev       string              `json:"ev"`
	Run      int                 `json:"run"`
	Evals    int64               `json:"evals"`           // executions in this unit
	Steps    int64               `json:"steps,omitempty"` // simulated steps
	Counters map[string]int64    `json:"c,omitempty"`     // fault kinds fired, probes hit, ...
	Hashes   map[string][]uint64 `json:"h,omitempty"`     // distinctness measures: name -> hashes
	Samples  []interface{}       `json:"samples,omitempty"`
	Fails    []*Failure          `json:"fails,omitempty"`
	Vec      map[string]string   `json:"vec,omitempty"`     // named observations compared across build variants and processes
	Trouble  string              `json:"trouble,omitempty"` // machinery problem: exit 2 at the driver
}

// Parse reads the worker flags.
func Parse() *Ctx {
	c := &Ctx{}
	var seed uint64
	flag.StringVar(&c.Prop, "prop", "", "property id")
	flag.StringVar(&c.Mode, "mode", "run", "run|replay|plan")
	flag.Uint64Var(&seed, "seed", 1, "VERIF_SEED")
	flag.StringVar(&c.Tier, "tier", "quick", "quick|thorough")
	flag.IntVar(&c.Start, "start", 0, "first unit")
	flag.IntVar(&c.Count, "count", 1, "number of units")
	flag.StringVar(&c.File, "file", "", "replay file")
	flag.StringVar(&c.Repo, "repo", "/repo", "tree snapshot")
	flag.StringVar(&c.Sites, "sites", "", "sites.json of the instrumented copy")
	flag.StringVar(&c.RaceLog, "racelog", "", "GORACE log_path prefix")
	flag.StringVar(&c.Variant, "variant", "", "build variant")
	flag.StringVar(&c.Extra, "extra", "", "property-specific argument")
	flag.Parse()
	c.Seed = seed
	c.out = bufio.NewWriterSize(os.Stdout, 1<<16)
	if c.Variant == "inst" || c.Variant == "race" {
		simrt.RequireSim = true
	}
	return c
}

// Emit writes one JSON line and flushes it.
func (c *Ctx) Emit(v interface{}) {
	b, err := json.Marshal(v)
	if err != nil {
		b, _ = json.Marshal(map[string]string{"ev": "trouble", "trouble": "marshal: " + err.Error()})
	}
	c.mu.Lock()
	c.out.Write(b)
	c.out.WriteByte('\n')
	c.out.Flush()
	c.mu.Unlock()
}

// Begin announces a unit so that a worker death is attributable.
func (c *Ctx) Begin(run int) { c.Emit(map[string]interface{}{"ev": "begin", "run": run}) }

// UnitSeed derives the PRNG seed of a unit: a pure function of (VERIF_SEED, property, unit).
func (c *Ctx) UnitSeed(run int, salt uint64) uint64 {
	var p uint64
	for _, ch := range c.Prop {
		p = p*131 + uint64(ch)
	}
	return simrt.Derive(c.Seed, p, uint64(run), salt)
}

// NewUnit starts a unit result.
func NewUnit(run int) *Unit {
	return &Unit{Ev: "end", Run: run, Counters: map[string]int64{}, Hashes: map[string][]uint64{}}
}

// AddFail records a failure, keeping one per (class, site) and at most 5 per unit.
func (u *Unit) AddFail(f *Failure) {
	if f == nil {
		return
	}
	for _, g := range u.Fails {
		if g.Class == f.Class && g.Site == f.Site {
			u.Counters["repeat_of_reported_failure"]++
			return
		}
	}
	if len(u.Fails) < 5 {
		u.Fails = append(u.Fails, f)
	}
}

// Observe records a named observation of this unit.
func (u *Unit) Observe(key, val string) {
	if u.Vec == nil {
		u.Vec = map[string]string{}
	}
	u.Vec[key] = val
}

// Child runs this worker binary again as a fresh OS process in the given mode over unit run and
// returns the observations it emitted.  It is how a check compares a result with what a process
// with a different history computes.
func (c *Ctx) Child(mode string, run int, extra string) (map[string]string, error) {
	args := []string{"-prop", c.Prop, "-mode", mode, "-seed", fmt.Sprint(c.Seed), "-tier", c.Tier, "-start", fmt.Sprint(run), "-count", "1",
		"-repo", c.Repo, "-sites", c.Sites, "-variant", c.Variant, "-file", c.File, "-extra", extra}
	cmd := exec.Command(os.Args[0], args...)
	var errb bytes.Buffer
	cmd.Stderr = &errb
	out, err := cmd.Output()
	if err != nil {
		return nil, fmt.Errorf("child worker (%s): %v: %s", mode, err, errb.String())
	}
	vec := map[string]string{}
	for _, line := range strings.Split(string(out), "\n") {
		var u Unit
		if json.Unmarshal([]byte(line), &u) == nil && u.Ev == "end" {
			for k, v := range u.Vec {
				vec[k] = v
			}
		}
	}
	return vec, nil
}

// Stop tells the driver that the worker ends its block early on purpose.
func (c *Ctx) Stop() { c.Emit(map[string]interface{}{"ev": "stop"}) }

// Hash records h under a distinctness measure (deduplicated per unit).
func (u *Unit) Hash(name string, h uint64) {
	for _, x := range u.Hashes[name] {
		if x == h {
			return
		}
	}
	u.Hashes[name] = append(u.Hashes[name], h)
}

// Sample keeps at most n samples per unit.
func (u *Unit) Sample(n int, v interface{}) {
	if len(u.Samples) < n {
		u.Samples = append(u.Samples, v)
	}
}

// FNV hashes a string.
func FNV(s string) uint64 {
	h := uint64(14695981039346656037)
	for i := 0; i < len(s); i++ {
		h ^= uint64(s[i])
		h *= 1099511628211
	}
	return h
}

// Fatal reports machinery trouble and exits 2.
func (c *Ctx) Fatal(format string, a ...interface{}) {
	c.Emit(map[string]string{"ev": "trouble", "trouble": fmt.Sprintf(format, a...)})
	os.Exit(2)
}

// SortedKeys returns the keys of m in sorted order.
func SortedKeys(m map[string]int64) []string {
	ks := make([]string, 0, len(m))
	for k := range m {
		ks = append(ks, k)
	}
	sort.Strings(ks)
	return ks
}

// maxWrites is a helper for max_ counters.
func (u *Unit) MaxCounter(name string, v int64) {
	if v > u.Counters[name] {
		u.Counters[name] = v
	}
}
