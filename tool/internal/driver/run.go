package driver

import (
	"bufio"
	"bytes"
	"encoding/json"
	"fmt"
	"os"
	"os/exec"
	"path/filepath"
	"regexp"
	"sort"
	"strings"
	"sync"
	"syscall"
	"time"
)

// Failure mirrors wk.Failure.
type Failure struct {
	Class  string          `json:"class"`
	Site   string          `json:"site"`
	Detail string          `json:"detail"`
	Replay json.RawMessage `json:"replay,omitempty"`

	Run     int    `json:"-"`
	Variant string `json:"-"`
	// ProcStart is the first unit of the worker process that observed the failure: the units
	// ProcStart..Run, executed in that order by one fresh process, are the failure's process history.
	ProcStart int `json:"-"`
}

// Key identifies a violation class for de-duplication and known-findings matching.
func (f *Failure) Key() string { return f.Class + "|" + f.Site }

type unitMsg struct {
	Ev       string                     `json:"ev"`
	Run      int                        `json:"run"`
	Evals    int64                      `json:"evals"`
	Steps    int64                      `json:"steps"`
	Counters map[string]int64           `json:"c"`
	Hashes   map[string][]uint64        `json:"h"`
	Samples  []json.RawMessage          `json:"samples"`
	Fails    []*Failure                 `json:"fails"`
	Vec      map[string]string          `json:"vec"`
	Trouble  string                     `json:"trouble"`
	Units    int                        `json:"units"`
	Extra    map[string]json.RawMessage `json:"-"`
}

// Agg is the aggregate over all units of a fan-out.
type Agg struct {
	mu        sync.Mutex
	Units     int
	Evals     int64
	Steps     int64
	Counters  map[string]int64
	Distinct  map[string]map[uint64]struct{}
	Samples   []json.RawMessage
	Fails     []*Failure
	Troubles  []string
	UnitsDone map[int]bool
	// Obs collects named observations: "run/key" -> value -> how often seen
	Obs map[string]map[string]int
}

func newAgg() *Agg {
	return &Agg{Counters: map[string]int64{}, Distinct: map[string]map[uint64]struct{}{}, UnitsDone: map[int]bool{}, Obs: map[string]map[string]int{}}
}

func (a *Agg) add(u *unitMsg, variant string) {
	a.mu.Lock()
	defer a.mu.Unlock()
	a.Units++
	a.UnitsDone[u.Run] = true
	a.Evals += u.Evals
	a.Steps += u.Steps
	for k, v := range u.Counters {
		if strings.HasPrefix(k, "max_") {
			if v > a.Counters[k] {
				a.Counters[k] = v
			}
		} else {
			a.Counters[k] += v
		}
	}
	for name, hs := range u.Hashes {
		m := a.Distinct[name]
		if m == nil {
			m = map[uint64]struct{}{}
			a.Distinct[name] = m
		}
		for _, h := range hs {
			m[h] = struct{}{}
		}
	}
	for k, v := range u.Vec {
		key := fmt.Sprintf("%d/%s", u.Run, k)
		if a.Obs[key] == nil {
			a.Obs[key] = map[string]int{}
		}
		a.Obs[key][v]++
	}
	if len(a.Samples) < 12 {
		a.Samples = append(a.Samples, u.Samples...)
	}
	for _, f := range u.Fails {
		f.Run = u.Run
		f.Variant = variant
		a.Fails = append(a.Fails, f)
	}
	if u.Trouble != "" {
		a.Troubles = append(a.Troubles, u.Trouble)
	}
}

// merge folds the aggregate of a further variant into a.
func (a *Agg) merge(b *Agg, variant string) {
	a.Evals += b.Evals
	a.Steps += b.Steps
	a.Counters["units_run_"+variant] += int64(b.Units)
	for k, v := range b.Counters {
		if strings.HasPrefix(k, "max_") {
			if v > a.Counters[k] {
				a.Counters[k] = v
			}
		} else {
			a.Counters[variant+"_"+k] += v
		}
	}
	for name, m := range b.Distinct {
		if a.Distinct[name] == nil {
			a.Distinct[name] = map[uint64]struct{}{}
		}
		for h := range m {
			a.Distinct[name][h] = struct{}{}
		}
	}
	a.Fails = append(a.Fails, b.Fails...)
	a.Troubles = append(a.Troubles, b.Troubles...)
}

// DistinctCount returns the number of distinct hashes recorded under a measure.
func (a *Agg) DistinctCount(name string) int { return len(a.Distinct[name]) }

// WorkerArgs are the common flags of a worker invocation.
func (e *Env) workerArgs(prop, mode string) []string {
	return []string{"-prop", prop, "-mode", mode, "-seed", fmt.Sprint(e.Seed), "-tier", e.Tier,
		"-repo", e.SnapshotDir(), "-sites", e.Sites}
}

// Plan asks a worker how many units the tier has.
func (e *Env) Plan(variant, prop string, extra ...string) (int, map[string]interface{}, error) {
	args := append(e.workerArgs(prop, "plan"), extra...)
	cmd := exec.Command(e.Bin(variant), args...)
	var errb bytes.Buffer
	cmd.Stderr = &errb
	out, err := cmd.Output()
	if err != nil {
		return 0, nil, troublef("plan of %s failed: %v\n%s%s", prop, err, out, errb.String())
	}
	var m map[string]interface{}
	for _, line := range strings.Split(string(out), "\n") {
		if strings.Contains(line, `"ev":"plan"`) {
			if err := json.Unmarshal([]byte(line), &m); err != nil {
				return 0, nil, troublef("plan output: %v", err)
			}
		}
		if strings.Contains(line, `"ev":"trouble"`) {
			return 0, nil, troublef("plan of %s: %s", prop, line)
		}
	}
	if m == nil {
		return 0, nil, troublef("plan of %s printed nothing: %s", prop, out)
	}
	n, _ := m["units"].(float64)
	return int(n), m, nil
}

// FanOpts controls a fan-out.
type FanOpts struct {
	Variant   string
	Prop      string
	Units     []int         // unit indices to run, in order
	Block     int           // units per worker process
	Deadline  time.Time     // stop handing out blocks after this time (zero = none)
	BlockWall time.Duration // watchdog per block
	Extra     []string
	Env       []string
	MaxFails  int // stop early after this many distinct failure keys (0 = 8)
	// OnDeath is called when a worker dies without reporting; it returns a failure (attributed
	// to the unit in progress) or nil if the death is machinery trouble.
	OnDeath func(run int, exit int, stderr string, killedByWatchdog bool) *Failure
}

// Fan runs the units over e.Jobs worker processes.
func (e *Env) Fan(o FanOpts) (*Agg, error) {
	agg := newAgg()
	if o.Block <= 0 {
		o.Block = 4
	}
	if o.BlockWall == 0 {
		o.BlockWall = 10 * time.Minute
	}
	if o.MaxFails == 0 {
		o.MaxFails = 8
	}
	type block struct{ units []int }
	var blocks []block
	for i := 0; i < len(o.Units); {
		// contiguous runs only, so that -start/-count addresses them
		j := i + 1
		for j < len(o.Units) && j-i < o.Block && o.Units[j] == o.Units[j-1]+1 {
			j++
		}
		blocks = append(blocks, block{o.Units[i:j]})
		i = j
	}
	var mu sync.Mutex
	next := 0
	stop := false
	keys := map[string]bool{}
	var wg sync.WaitGroup
	var firstErr error
	take := func() *block {
		mu.Lock()
		defer mu.Unlock()
		if stop || next >= len(blocks) || firstErr != nil {
			return nil
		}
		if !o.Deadline.IsZero() && time.Now().After(o.Deadline) {
			return nil
		}
		b := &blocks[next]
		next++
		return b
	}
	for w := 0; w < e.Jobs; w++ {
		wg.Add(1)
		go func() {
			defer wg.Done()
			for {
				b := take()
				if b == nil {
					return
				}
				start := b.units[0]
				remaining := len(b.units)
				for remaining > 0 {
					done, err := e.runBlock(o, agg, start, remaining)
					if err != nil {
						mu.Lock()
						if firstErr == nil {
							firstErr = err
						}
						mu.Unlock()
						return
					}
					if done <= 0 {
						done = 1 // the unit in progress was consumed by a death or a failure
					}
					start += done
					remaining -= done
					agg.mu.Lock()
					for _, f := range agg.Fails {
						keys[f.Key()] = true
					}
					n := len(keys)
					agg.mu.Unlock()
					if n >= o.MaxFails {
						mu.Lock()
						stop = true
						mu.Unlock()
						return
					}
				}
			}
		}()
	}
	wg.Wait()
	if firstErr != nil {
		return agg, firstErr
	}
	if len(agg.Troubles) > 0 {
		return agg, troublef("worker reported trouble: %s", strings.Join(agg.Troubles, "; "))
	}
	return agg, nil
}

// runBlock runs one worker process over units [start, start+count) and returns how many units
// it completed (a worker stops early after a unit with a process-fatal failure).
func (e *Env) runBlock(o FanOpts, agg *Agg, start, count int) (int, error) {
	args := append(e.workerArgs(o.Prop, "run"), "-start", fmt.Sprint(start), "-count", fmt.Sprint(count), "-variant", o.Variant)
	args = append(args, o.Extra...)
	cmd := exec.Command(e.Bin(o.Variant), args...)
	cmd.Env = append(os.Environ(), o.Env...)
	cmd.SysProcAttr = &syscall.SysProcAttr{Setpgid: true}
	stdout, err := cmd.StdoutPipe()
	if err != nil {
		return 0, troublef("%v", err)
	}
	var stderr bytes.Buffer
	cmd.Stderr = &stderr
	if err := cmd.Start(); err != nil {
		return 0, troublef("start worker: %v", err)
	}
	killed := false
	timer := time.AfterFunc(o.BlockWall, func() {
		killed = true
		syscall.Kill(-cmd.Process.Pid, syscall.SIGKILL)
	})
	defer timer.Stop()
	// memory watchdog: the sandbox has no memory limit and RLIMIT_AS cannot be used with the race
	// detector's shadow mappings, so the resident set of every worker is polled
	memKilled := false
	stopMem := make(chan struct{})
	defer close(stopMem)
	go func() {
		t := time.NewTicker(500 * time.Millisecond)
		defer t.Stop()
		for {
			select {
			case <-stopMem:
				return
			case <-t.C:
				if rssBytes(cmd.Process.Pid) > maxWorkerRSS {
					memKilled = true
					syscall.Kill(-cmd.Process.Pid, syscall.SIGKILL)
					return
				}
			}
		}
	}()
	sc := bufio.NewScanner(stdout)
	sc.Buffer(make([]byte, 1<<20), 256<<20)
	inProgress := -1
	completed := 0
	stopped := false
	for sc.Scan() {
		line := sc.Bytes()
		var u unitMsg
		if err := json.Unmarshal(line, &u); err != nil {
			continue
		}
		switch u.Ev {
		case "begin":
			inProgress = u.Run
		case "end":
			for _, f := range u.Fails {
				f.ProcStart = start
			}
			agg.add(&u, o.Variant)
			inProgress = -1
			completed++
		case "stop":
			stopped = true
		case "trouble":
			agg.mu.Lock()
			agg.Troubles = append(agg.Troubles, u.Trouble)
			agg.mu.Unlock()
		}
	}
	werr := cmd.Wait()
	exit := 0
	if werr != nil {
		exit = -1
		if ee, ok := werr.(*exec.ExitError); ok {
			exit = ee.ExitCode()
		}
	}
	if exit == 0 && (completed == count || stopped) {
		return completed, nil
	}
	// the worker died
	if inProgress < 0 && !killed {
		return completed, troublef("worker for %s exited with %d outside a unit (units %d..%d):\n%s", o.Prop, exit, start, start+count-1, tail(stderr.String(), 4000))
	}
	onDeath := o.OnDeath
	if onDeath == nil {
		onDeath = func(run, exit int, stderr string, killed bool) *Failure { return CrashFailure(stderr, killed) }
	}
	if onDeath != nil {
		if f := onDeath(inProgress, exit, stderr.String(), killed || memKilled); f != nil {
			f.ProcStart = start
			f.Run = inProgress
			f.Variant = o.Variant
			agg.mu.Lock()
			agg.Fails = append(agg.Fails, f)
			agg.mu.Unlock()
			return completed + 1, nil
		}
	}
	what := fmt.Sprintf("exit status %d", exit)
	if memKilled {
		what = fmt.Sprintf("killed because its resident set exceeded %d MB", maxWorkerRSS>>20)
	}
	if killed {
		what = fmt.Sprintf("killed by the %v watchdog (a task blocked outside the simulator, or the machine is overloaded)", o.BlockWall)
	}
	return completed, troublef("worker for %s died in unit %d: %s\n%s", o.Prop, inProgress, what, tail(stderr.String(), 4000))
}

func tail(s string, n int) string {
	if len(s) > n {
		return "..." + s[len(s)-n:]
	}
	return s
}

var crashHead = regexp.MustCompile(`(?m)^(fatal error: .*|panic: .*|runtime: goroutine stack exceeds .*)$`)

// CrashFailure attributes the death of a worker process to the code under test when the Go
// runtime said why on stderr (a fatal error - stack overflow, unlock of unlocked mutex, all
// goroutines asleep - or a panic that no task of the simulation could have recovered) and the
// stack names a frame of soy.  The site is the runtime's message and the innermost soy function,
// without addresses, so that the same crash in a fresh process matches.
func CrashFailure(stderr string, killed bool) *Failure {
	if killed {
		return nil
	}
	m := crashHead.FindString(stderr)
	if m == "" {
		return nil
	}
	if len(m) > 120 {
		m = m[:120]
	}
	fn := ""
	for _, l := range strings.Split(stderr[strings.Index(stderr, m):], "\n") {
		l = strings.TrimSpace(l)
		if strings.HasPrefix(l, "github.com/robfig/soy") && strings.Contains(l, "(") {
			fn = l[:strings.LastIndex(l, "(")]
			if k := strings.LastIndex(fn, "/"); k >= 0 {
				fn = fn[k+1:]
			}
			break
		}
	}
	if fn == "" {
		return nil // nothing of soy on the stack: the machinery's own trouble
	}
	return &Failure{Class: "crash", Site: m + " in " + fn, Detail: "the worker process died: " + m + "\n" + tail(stderr, 3000), Replay: json.RawMessage(`{"crash":true}`)}
}

// ReplayResult is what a replay in a fresh process observed.
type ReplayResult struct {
	Fails   []*Failure
	Trouble string
	Exit    int
	Stderr  string
	Killed  bool
}

// RunReplay executes a replay file in a fresh worker process.
func (e *Env) RunReplay(variant, prop, file string, wall time.Duration, env []string, extra ...string) *ReplayResult {
	args := append(e.workerArgs(prop, "replay"), "-file", file, "-variant", variant)
	args = append(args, extra...)
	return e.runCollect(variant, args, wall, env)
}

// RunRange executes units [start, start+count) in one fresh worker process, exactly as the
// fan-out does, and collects the failures: the replay of a failure that depends on what the
// process did before (the worker is a deterministic function of seed, tier and unit range).
func (e *Env) RunRange(variant, prop string, start, count int, wall time.Duration, env []string, extra ...string) *ReplayResult {
	args := append(e.workerArgs(prop, "run"), "-start", fmt.Sprint(start), "-count", fmt.Sprint(count), "-variant", variant)
	args = append(args, extra...)
	if wall == 0 {
		wall = 15 * time.Minute
	}
	return e.runCollect(variant, args, wall, env)
}

func (e *Env) runCollect(variant string, args []string, wall time.Duration, env []string) *ReplayResult {
	cmd := exec.Command(e.Bin(variant), args...)
	cmd.Env = append(os.Environ(), env...)
	cmd.SysProcAttr = &syscall.SysProcAttr{Setpgid: true}
	var stdout, stderr bytes.Buffer
	cmd.Stdout, cmd.Stderr = &stdout, &stderr
	res := &ReplayResult{}
	if err := cmd.Start(); err != nil {
		res.Trouble = err.Error()
		return res
	}
	if wall == 0 {
		wall = 2 * time.Minute
	}
	timer := time.AfterFunc(wall, func() {
		res.Killed = true
		syscall.Kill(-cmd.Process.Pid, syscall.SIGKILL)
	})
	stopMem := make(chan struct{})
	go func() {
		t := time.NewTicker(500 * time.Millisecond)
		defer t.Stop()
		for {
			select {
			case <-stopMem:
				return
			case <-t.C:
				if rssBytes(cmd.Process.Pid) > maxWorkerRSS {
					res.Killed = true
					syscall.Kill(-cmd.Process.Pid, syscall.SIGKILL)
					return
				}
			}
		}
	}()
	err := cmd.Wait()
	close(stopMem)
	timer.Stop()
	if err != nil {
		res.Exit = -1
		if ee, ok := err.(*exec.ExitError); ok {
			res.Exit = ee.ExitCode()
		}
	}
	res.Stderr = stderr.String()
	begun := -1
	for _, line := range strings.Split(stdout.String(), "\n") {
		var u unitMsg
		if json.Unmarshal([]byte(line), &u) != nil {
			continue
		}
		if u.Ev == "begin" {
			begun = u.Run
		}
		if u.Ev == "end" {
			begun = -1
			for _, f := range u.Fails {
				f.Run = u.Run
			}
			res.Fails = append(res.Fails, u.Fails...)
		}
		if u.Ev == "trouble" {
			res.Trouble = u.Trouble
		}
	}
	if res.Exit != 0 && begun >= 0 {
		if f := CrashFailure(res.Stderr, res.Killed); f != nil {
			f.Run = begun
			res.Fails = append(res.Fails, f)
		}
	}
	return res
}

// SortedCounterKeys lists counter names.
func (a *Agg) SortedCounterKeys() []string {
	ks := make([]string, 0, len(a.Counters))
	for k := range a.Counters {
		ks = append(ks, k)
	}
	sort.Strings(ks)
	return ks
}

// Seq returns [0, n).
func Seq(n int) []int {
	s := make([]int, n)
	for i := range s {
		s[i] = i
	}
	return s
}

func mkdir(p string) { os.MkdirAll(filepath.Dir(p), 0o755) }

// maxWorkerRSS is the resident-set limit of one worker process.
const maxWorkerRSS = 6 << 30

func rssBytes(pid int) int64 {
	b, err := os.ReadFile(fmt.Sprintf("/proc/%d/statm", pid))
	if err != nil {
		return 0
	}
	var size, rss int64
	fmt.Sscanf(string(b), "%d %d", &size, &rss)
	return rss * int64(os.Getpagesize())
}
