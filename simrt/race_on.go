//go:build race

package simrt

import "runtime"

// RaceBuild reports whether the race detector is compiled in.
const RaceBuild = true

//go:norace
func raceDisable() { runtime.RaceDisable() }

//go:norace
func raceEnable() { runtime.RaceEnable() }
