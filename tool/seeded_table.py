#!/usr/bin/env python3
"""Regenerates the table of section 11 of DESIGN.md from /verif/seeded/*/{meta,result}.json."""
import glob, json, os, re
ROOT = os.path.dirname(os.path.dirname(os.path.abspath(__file__)))
rows = ["| id | property | what the change does | first run | now | strengthening it forced |", "|----|----------|----------------------|-----------|-----|--------------------------|"]
for d in sorted(glob.glob(os.path.join(ROOT, "seeded", "*"))):
    mp, rp = os.path.join(d, "meta.json"), os.path.join(d, "result.json")
    if not os.path.exists(mp):
        continue
    m = json.load(open(mp))
    now = "not run"
    if os.path.exists(rp):
        r = json.load(open(rp))
        parts = []
        for c, v in sorted(r["checks"].items()):
            if v["exit"] == 1:
                cls = [l.strip() for l in v["lines"] if l.strip().startswith("class=")]
                parts.append("%s: VIOLATION (%s)" % (c, cls[0] if cls else ""))
            elif v["exit"] == 0:
                parts.append("%s: not caught" % c)
            else:
                parts.append("%s: exit 2" % c)
        now = "; ".join(parts)
    fr = m.get("first_run", {})
    first = fr.get("outcome", "")
    if fr.get("note"):
        first += " — " + fr["note"]
    rows.append("| %s | %s | %s | %s | %s | %s |" % (m["id"], m["property"], m["what"].replace("|", "\\|"), first.replace("|", "\\|"), now.replace("|", "\\|"), m.get("strengthening", "").replace("|", "\\|")))
p = os.path.join(ROOT, "DESIGN.md")
s = open(p).read()
block = "<!-- SEEDED-TABLE-BEGIN -->\n" + "\n".join(rows) + "\n<!-- SEEDED-TABLE-END -->"
s = re.sub(r"<!-- SEEDED-TABLE-BEGIN -->.*<!-- SEEDED-TABLE-END -->", lambda m: block, s, flags=re.S)
open(p, "w").write(s)
print(len(rows) - 2, "rows")
